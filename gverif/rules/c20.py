"""C20 - Workers always run with exactly the configured user and group (mechanism clauses)."""
import ast

from ..absint import Explorer, UNKNOWN

from ..astutil import norm, const, NO, compare, tail, names
from ..index import AnalysisError, walk_own
from ..defassign import possibly_unbound
from .common import (site, key, calls_to, method_calls, nodes_with, guard_check, stores_to_name, cfg_attr, sample_polarity)

BASE = "gunicorn.workers.base.Worker"
ARB = "gunicorn.arbiter.Arbiter"
UTIL = "gunicorn.util"
ID_CALLS = ["os.setuid", "os.setgid", "os.setgroups", "os.initgroups", "os.setreuid", "os.setregid", "os.setresuid", "os.setresgid", "os.seteuid", "os.setegid"]
UNDECIDED = ["the ids of real processes (/proc), supplementary groups actually set by the kernel", "that chown succeeds on the actual file systems"]


def run(ctx):
    ctx.undecided = UNDECIDED
    ctx.rule("C20.R1", "K3", "Worker.init_process drops privileges (set_owner_process(cfg.uid, cfg.gid, initgroups=cfg.initgroups)) before the application is loaded and before run()")
    ctx.rule("C20.R2", "K6", "every init_process override reaches Worker.init_process through super() on every path")
    ctx.rule("C20.R3", "K5", "one spawn path: workers are forked only in Arbiter.spawn_worker, whose child branch calls worker.init_process(); respawn, reload and upgraded masters all use it")
    ctx.rule("C20.R4", "K3+K12", "set_owner_process: group (setgid/initgroups) before user (setuid) on every path; every local is definitely assigned")
    ctx.rule("C20.R5", "K5", "identity changes happen nowhere else; set_owner_process is called only from Worker.init_process")
    ctx.rule("C20.R6", "K3", "ownership hand-over: heartbeat file chowned before it is unlinked; unix socket chowned after bind under the configured umask; validate_user/group yield an int or raise")
    r1(ctx)
    r2(ctx)
    r3(ctx)
    r4(ctx)
    r5(ctx)
    r6(ctx)
    ctx.rule("C20.R7", "K4", "(= C14.R2) an upgraded master resolves the same user/group: re-exec hands it the complete original environment (incl. GUNICORN_CMD_ARGS) plus only the hand-off keys")
    from .c14 import exec_environment
    exec_environment(ctx, "C20.R7")


def r1(ctx):
    repo = ctx.repo
    f = ctx.fn(repo.func(BASE + ".init_process"))
    g = f.cfg
    so = calls_to(repo, f, UTIL + ".set_owner_process")
    ctx.check("C20.R1", len(so) == 1, key(f, "drops-privileges"), site(f), "init_process calls set_owner_process %d times (once required)" % len(so), "set_owner_process called")
    if not so:
        return
    c = so[0]
    a = [cfg_attr(x) for x in c.args] + [(k.arg, cfg_attr(k.value)) for k in c.keywords]
    ctx.check("C20.R1", a[:2] == ["uid", "gid"] and (("initgroups", "initgroups") in a or (len(a) > 2 and a[2] == "initgroups")), key(f, "args"), site(f, c),
              "set_owner_process is not given (cfg.uid, cfg.gid, initgroups=cfg.initgroups): `%s`" % norm(c), "(cfg.uid, cfg.gid, initgroups=cfg.initgroups)")
    sn = nodes_with(f, c)
    for nm, what in (("load_wsgi", "the application is imported (its module-level code runs)"), ("run", "requests are served"), ("post_worker_init", "the post_worker_init hook runs")):
        tg = [n for cc in method_calls(f, nm) for n in nodes_with(f, cc)]
        ctx.check("C20.R1", bool(tg) and all(any(g.dominates(s, t, follow_exc=False) for s in sn) for t in tg), key(f, "before|" + nm), site(f, c),
                  "%s before privileges are dropped" % what, "set_owner_process dominates %s()" % nm)
    # not conditional
    ctx.check("C20.R1", all(g.dominates(s, g.exit, follow_exc=False) or g.exit not in g.reachable([g.entry], follow_exc=False) for s in sn) and
              all(not any(t.stmt is not None and any(c is x for x in ast.walk(t.stmt)) and isinstance(t.stmt, ast.If) for t in g.tests()) for _ in [0]), key(f, "unconditional"), site(f, c),
              "privilege drop is conditional", "unconditional")


def r2(ctx):
    repo = ctx.repo
    n = 0
    for h in repo.overrides(BASE, "init_process"):
        if h.cls.qualname == BASE:
            continue
        n += 1
        ctx.fn(h)
        g = h.cfg
        sup = [nn for c, q in repo.calls_in(h) if q and q.endswith(".init_process") and q != h.qualname and (repo.has_func(q) and repo.is_subclass(h.cls.qualname, repo.func(q).cls.qualname)) for nn in nodes_with(h, c)]
        p = g.must_pass(g.entry, sup, follow_exc=False) if sup else [g.entry]
        ctx.check("C20.R2", bool(sup) and p is None, key(h, "super-init-process"), site(h), "%s can finish without calling the base init_process: privileges are never dropped (and run() never starts) for this worker class" % h.short,
                  "super().init_process() on every path")
        # nothing that loads the app or serves before super()
        early = [c for c in walk_own(h.node) if isinstance(c, ast.Call) and isinstance(c.func, ast.Attribute) and c.func.attr in ("load_wsgi", "run", "wsgi")]
        for c in early:
            cn = nodes_with(h, c)
            ctx.check("C20.R2", all(any(g.dominates(s, x, follow_exc=False) for s in sup) for x in cn), key(h, "early|" + norm(c.func)), site(h, c), "`%s` runs before the base init_process dropped privileges" % norm(c), "after super()")
    ctx.floor("C20.R2", "init_process overrides", n, 3)


def r3(ctx):
    repo = ctx.repo
    f = ctx.fn(repo.func(ARB + ".spawn_worker"))
    g = f.cfg
    forks = calls_to(repo, f, "os.fork")
    ctx.need(len(forks) == 1, "C20.R3: spawn_worker must fork exactly once")
    ip = [n for c in method_calls(f, "init_process") for n in nodes_with(f, c)]
    ctx.check("C20.R3", bool(ip), key(f, "child-init-process"), site(f), "the forked child does not call worker.init_process()", "child -> worker.init_process()")
    # nothing application-related between fork and init_process in the child: post_fork hook only
    callers = {}
    for ff in repo.funcs():
        for c, q in repo.calls_in(ff):
            if q == ARB + ".spawn_worker":
                callers.setdefault(ff.qualname, []).append(c)
    # (spawn_workers is a three-line loop that may or may not be folded into manage_workers)
    allowed = {ARB + ".spawn_workers", ARB + ".manage_workers", ARB + ".reload"}
    ctx.check("C20.R3", bool(callers) and set(callers) <= allowed, key(f, "callers"), site(f), "spawn_worker is called from %s (expected the worker-count maintenance and reload only)" % sorted(callers), "callers: spawn_workers/manage_workers, reload")
    # the only fork sites of the package that create workers
    for ff in repo.funcs():
        if ff.module.name.startswith("gunicorn.workers") or ff.module.name in ("gunicorn.arbiter",):
            for c, q in repo.calls_in(ff):
                if q == "os.fork":
                    ctx.check("C20.R3", ff.qualname in (ARB + ".spawn_worker", ARB + ".reexec"), key(ff, "fork-site"), site(ff, c), "a process is forked outside spawn_worker/reexec: it would not pass through init_process", "reviewed fork site")
    # worker objects are constructed only in spawn_worker
    for ff in repo.funcs():
        for c in walk_own(ff.node):
            if isinstance(c, ast.Call) and repo.resolve(ff.module, ff, c.func) in ("self.worker_class", "self.cfg.worker_class"):
                ctx.check("C20.R3", ff.qualname == ARB + ".spawn_worker" or (ff.qualname == ARB + ".start" and False), key(ff, "worker-ctor"), site(ff, c), "workers are constructed outside spawn_worker", "constructed in spawn_worker")


def swallowed_identity_errors(ctx):
    """a refusal of setgid / initgroups / setuid aborts the worker's boot: none of them sits under an except clause that
    lets the worker carry on with the identity it has (e.g. the master's supplementary groups)"""
    repo = ctx.repo
    from .c05 import _reraises
    f = ctx.fn(repo.func("gunicorn.util.set_owner_process"))
    n = 0
    for c, q in repo.calls_in(f):
        if q in ("os.setgid", "os.setuid", "os.initgroups", "os.setgroups", "os.setegid", "os.seteuid"):
            n += 1
            node = c
            while True:
                tr = f.module.enclosing(node, ast.Try)
                if tr is None:
                    break
                if any(node is x or any(node is y for y in ast.walk(x)) for x in tr.body):
                    for h in tr.handlers:
                        t = norm(h.type) if h.type is not None else "BaseException"
                        catches_os = any(k in t for k in ("OSError", "PermissionError", "Exception", "BaseException", "EnvironmentError", "IOError"))
                        ctx.check("C20.R4", not catches_os or _reraises(repo, f, h), key(f, "identity-error-swallowed|%s|%s" % (q, t)), site(f, h),
                                  "a failure of %s is caught by `except %s` and the worker carries on: application code runs with an identity that is not the configured one "
                                  "(e.g. the configured uid with the master's supplementary groups)" % (q, t), "identity errors abort the boot")
                node = tr
    ctx.floor("C20.R4", "identity system calls in set_owner_process", n, 3)


def identity_table(ctx, rid):
    """set_owner_process evaluated over configured (uid, gid, initgroups) x the process's current (uid, gid): the ordered list
    of identity system calls it makes. Required: initgroups(user, gid) whenever initgroups is on -- also when the primary group
    already is the configured one, and when no group is configured at all (gid 0: the *supplementary* groups are still the
    master's); setgid(gid)
    whenever the primary group differs; setuid(uid) whenever a different user is configured; every group call before setuid;
    nothing when nothing is configured."""
    repo = ctx.repo
    from ..absint import SpecObj
    f = ctx.fn(repo.func(UTIL + ".set_owner_process"))
    g = f.cfg
    UID, GID, INIT = f.params[0], f.params[1], f.params[2]

    def atom_of(e):
        if isinstance(e, ast.Call) and not e.args:
            q = repo.call_target(f.module, f, e)
            if q == "os.getuid":
                return "CURUID"
            if q == "os.geteuid":
                return "CUREUID"
            if q == "os.getgid":
                return "CURGID"
            if q == "os.getegid":
                return "CUREGID"
        if isinstance(e, ast.Call) and repo.call_target(f.module, f, e) == "pwd.getpwuid":
            return "PWENT"          # the configured user has a passwd entry (the other case is the KeyError clause's)
        return None

    def arg(i):
        def fn(ex, c, env):
            return ex.ev(c.args[i], env) if len(c.args) > i else None
        return fn
    traces = {"os.setgid": arg(0), "os.setuid": arg(0), "os.initgroups": arg(1), "os.setgroups": arg(0), "os.setregid": arg(0), "os.setresgid": arg(0), "os.setreuid": arg(0), "os.setresuid": arg(0)}
    n = 0
    for uid in (0, 33):
        for gid in (0, 33):
            for init in (False, True):
                # (cu, cg) are the master's *real* ids -- what setuid/setgid must change: real, effective and saved id all have to
                # be the configured ones.  The last rows: a master whose effective gid already is the configured group while its
                # real and saved gid are root's (started through a set-gid launcher, or after a bare setegid)
                for cu, cg, known, eg in ((0, 0, True, None), (0, 33, True, None), (33, 0, True, None), (33, 33, True, None), (0, 0, False, None), (0, 33, False, None), (0, 0, True, 33)):
                    if True:
                        if eg is not None and gid != eg:
                            continue
                        if cu != 0 and (uid not in (0, cu) or gid not in (0, cg)):
                            continue          # an unprivileged master cannot be configured to change identity
                        if not known and not (init and uid):
                            continue          # (the passwd database is only consulted for initgroups)
                        n += 1
                        from ..absint import Raises
                        pwent = SpecObj(pw_name="user%d" % uid, pw_uid=uid, pw_gid=gid) if known else Raises("KeyError")
                        outs = Explorer(f, atom_of=atom_of, call_trace=traces).run(g.entry, {UID: uid, GID: gid, INIT: init, "CURUID": cu, "CURGID": cg, "CUREUID": cu, "CUREGID": cg if eg is None else eg, "PWENT": pwent})
                        outs = [o for o in outs if o.kind == "return"]
                        row = "uid=%s gid=%s initgroups=%s, running as %s:%s%s%s" % (uid, gid, init, cu, cg, "" if known else ", uid %s has no passwd entry" % uid,
                                                                                         "" if eg is None else " (effective gid %s)" % eg)
                        ctx.need(outs, "%s: set_owner_process has no normal outcome for %s" % (rid, row))
                        for o in outs:
                            tr = [(q.split(".")[-1], v) for q, v in o.env.get(Explorer.TRACE, ())]
                            names_ = [q for q, v in tr]
                            problems = []
                            if init and not known:
                                # a numeric uid without a passwd entry has no name: no group lists it as a member, so what
                                # initgroups(3) would compute is the group list [gid]
                                if ("setgroups", (gid,)) not in tr and ("initgroups", gid) not in tr:
                                    problems.append("the supplementary groups are not set (neither os.setgroups([%s]) nor initgroups): the worker keeps the master's group list although initgroups is on" % gid)
                            elif init and ("initgroups", gid) not in tr:
                                problems.append("os.initgroups(user, %s) is not called%s: the worker keeps the master's supplementary groups" % (
                                    gid, "" if gid else " (only the user is configured: cfg.gid is the master's own gid, 0 for root -- the group need not change, the group *list* must)"))
                            if not init and "initgroups" in names_:
                                problems.append("initgroups is called although the setting is off")
                            if gid and gid != cg and not any(q in ("setgid", "setregid", "setresgid") and v == gid for q, v in tr):
                                problems.append("os.setgid(%s) is not called: the worker keeps the master's primary group" % gid)
                            if uid and uid != cu and not any(q in ("setuid", "setreuid", "setresuid") and v == uid for q, v in tr):
                                problems.append("os.setuid(%s) is not called: the worker keeps running as the master's user" % uid)
                            if not gid and any(q in ("setgid", "setregid", "setresgid") or (q == "setgroups" and not init) for q in names_):
                                problems.append("the primary group is changed although no group is configured")
                            if not uid and any(q in ("setuid", "setreuid", "setresuid") for q in names_):
                                problems.append("setuid is called although no user is configured")
                            if any(v not in (uid, gid, (gid,)) for q, v in tr):
                                problems.append("an identity call gets something else than the configured id: %s" % (tr,))
                            us = [i for i, q in enumerate(names_) if q in ("setuid", "setreuid", "setresuid")]
                            if us and any(q in ("setgid", "initgroups", "setgroups", "setregid", "setresgid") for q in names_[us[0]:]):
                                problems.append("a group call follows setuid (it would fail with EPERM)")
                            ctx.check(rid, not problems, key(f, "identity-table|%s|%s|%s|%s|%s" % (uid, gid, init, cu, cg) + ("" if eg is None else "|eg=%s" % eg)), site(f, text=row),
                                      "set_owner_process with %s makes the calls %s: %s" % (row, tr, "; ".join(problems)), "calls %s" % (tr,))
    ctx.count("identity table rows", n)


def r4(ctx):
    swallowed_identity_errors(ctx)
    identity_table(ctx, "C20.R4")
    repo = ctx.repo
    f = ctx.fn(repo.func(UTIL + ".set_owner_process"))
    g = f.cfg
    su = [n for c in calls_to(repo, f, ["os.setuid", "os.setreuid", "os.setresuid", "os.seteuid"]) for n in nodes_with(f, c)]
    sg = [n for c in calls_to(repo, f, ["os.setgid", "os.initgroups", "os.setgroups", "os.setregid", "os.setresgid"]) for n in nodes_with(f, c)]
    ctx.need(su and sg, "C20.R4: set_owner_process lacks setuid or setgid/initgroups")
    late = [x for x in sg if any(x in g.reachable([s], follow_exc=False) for s in su)]
    ctx.check("C20.R4", not late, key(f, "group-before-user"), site(f, late[0] if late else su[0]),
              "a group change is reachable after os.setuid(): once the uid is dropped the process may no longer change its group and keeps the master's (root) group", "setgid/initgroups before setuid")
    # the primary group is really changed: every path on which a group is configured (and differs from the
    # current one) passes os.setgid -- os.initgroups only sets the *supplementary* list
    GID, UID = f.params[1], f.params[0]
    setg = [n for c in calls_to(repo, f, ["os.setgid", "os.setregid", "os.setresgid"]) for n in nodes_with(f, c)]

    def exempt_edges(var, getter):
        out = []
        for t in g.tests():
            if isinstance(t.ast, ast.Name) and t.ast.id == var:
                out.append((t, "false"))               # nothing configured
            c = compare(t.ast)
            if c and getter in norm(t.ast) and var in names(t.ast) and c[1] in (ast.NotEq, ast.Eq):
                out.append((t, "false" if c[1] is ast.NotEq else "true"))      # already that id
        return out
    # (that the primary group / the user is really changed whenever a different one is configured -- os.initgroups only sets the
    # *supplementary* list -- is decided by the evaluated identity table above, rows gid != current / uid != current, however
    # the tests are written: inline, hoisted into flags, or in a helper)
    ctx.check("C20.R4", bool(setg), key(f, "primary-group-set"), site(f), "set_owner_process never calls os.setgid()", "os.setgid present")
    setu = [n for c in calls_to(repo, f, ["os.setuid", "os.setreuid", "os.setresuid"]) for n in nodes_with(f, c)]
    ctx.check("C20.R4", bool(setu), key(f, "user-set"), site(f), "set_owner_process never calls os.setuid()", "os.setuid present")
    # setuid / setgid use the parameters
    for c in calls_to(repo, f, "os.setuid"):
        ctx.check("C20.R4", isinstance(c.args[0], ast.Name) and c.args[0].id == f.params[0], key(f, "setuid-arg"), site(f, c), "os.setuid is not given the uid parameter", "setuid(uid)")
    for c in calls_to(repo, f, "os.setgid"):
        ctx.check("C20.R4", isinstance(c.args[0], ast.Name) and c.args[0].id == f.params[1], key(f, "setgid-arg"), site(f, c), "os.setgid is not given the gid parameter", "setgid(gid)")
    for c in calls_to(repo, f, "os.initgroups"):
        ctx.check("C20.R4", len(c.args) == 2 and isinstance(c.args[1], ast.Name) and c.args[1].id == f.params[1], key(f, "initgroups-arg"), site(f, c), "os.initgroups is not given (username, gid)", "initgroups(username, gid)")
    # setuid for every uid that differs from the current one (and is set)
    ub = possibly_unbound(f)
    ctx.check("C20.R4", not ub, key(f, "definitely-assigned|" + ",".join(sorted(set(x[0] for x in ub)))), site(f, ub[0][1] if ub else None),
              "local `%s` can be used before assignment in set_owner_process (%s): e.g. a group but no user configured together with initgroups -> UnboundLocalError, the worker cannot boot" % (
                  ub[0][0] if ub else "", ub[0][2] if ub else ""), "all locals definitely assigned (%d locals)" % len(set(f.locals) - set(f.params)))


def r5(ctx):
    repo = ctx.repo
    n = 0
    for ff in repo.funcs():
        for c, q in repo.calls_in(ff):
            if q in ID_CALLS:
                n += 1
                ctx.check("C20.R5", ff.qualname == UTIL + ".set_owner_process", key(ff, "identity-change|" + q), site(ff, c), "`%s` outside set_owner_process: the master (or a worker, a second time) changes identity" % q, "only in set_owner_process")
            if q == UTIL + ".set_owner_process":
                ctx.check("C20.R5", ff.qualname == BASE + ".init_process", key(ff, "set_owner_process-caller"), site(ff, c), "set_owner_process is called outside Worker.init_process (e.g. in the master: it would drop its own privileges)", "only from Worker.init_process")
    ctx.floor("C20.R5", "identity-changing call sites", n, 3)
    # init_process is reached only in the forked child
    for ff in repo.funcs():
        for c in walk_own(ff.node):
            if isinstance(c, ast.Call) and isinstance(c.func, ast.Attribute) and c.func.attr == "init_process" and not (isinstance(c.func.value, ast.Call) and norm(c.func.value.func) == "super"):
                ctx.check("C20.R5", ff.qualname == ARB + ".spawn_worker", key(ff, "init_process-caller"), site(ff, c), "init_process is invoked outside the forked child of spawn_worker", "only the child calls init_process")


def r6(ctx):
    repo = ctx.repo
    f = ctx.fn(repo.func("gunicorn.workers.workertmp.WorkerTmp.__init__"))
    g = f.cfg
    ch = [n for c in calls_to(repo, f, [UTIL + ".chown", "os.chown", "os.fchown"]) for n in nodes_with(f, c)]
    ul = [n for c in calls_to(repo, f, [UTIL + ".unlink", "os.unlink", "os.remove"]) for n in nodes_with(f, c)]
    ctx.check("C20.R6", bool(ch), key(f, "chown"), site(f), "the heartbeat file is never handed to the worker's user: after dropping privileges notify() fails and the worker is killed as hung", "chown(name, cfg.uid, cfg.gid)")
    if ch and ul:
        bad = [c for c in ch if any(c in g.reachable([u], follow_exc=False) for u in ul)]
        ctx.check("C20.R6", not bad, key(f, "chown-before-unlink"), site(f, ch[0]), "the heartbeat file is chowned by path after the path was unlinked (ENOENT)", "chown before unlink")

        # evaluated: the chown happens exactly when the configured uid or gid differs from the master's effective ids
        # (however the condition is spelled: `a != x or b != y`, `not (a == x and b == y)`, a helper predicate)
        CFGP = next((p_ for p_ in f.params[1:] if p_.startswith("cfg") or p_.startswith("conf")), None)
        ctx.need(CFGP, "C20.R6: cfg parameter of WorkerTmp.__init__ not found")

        def atom_of(e):
            if isinstance(e, ast.Call) and not e.args:
                q = repo.call_target(f.module, f, e)
                if q in ("os.geteuid", "os.getuid"):
                    return "EUID"
                if q in ("os.getegid", "os.getgid"):
                    return "EGID"
            return None
        ROWS = ((0, 0), (33, 0), (0, 33), (33, 33))
        gkeys = ["%s.%s" % (f.module.name, n_) for n_ in sorted(f.global_names)]

        def spawn(uid, gid, carried):
            ex = Explorer(f, atom_of=atom_of)
            env = {"EUID": 0, "EGID": 0, CFGP + ".uid": uid, CFGP + ".gid": gid, CFGP + ".umask": 0, CFGP + ".worker_tmp_dir": None}
            env.update(carried)
            outs = [o for o in ex.run(g.entry, env, watch={n.id: "chown" for n in ch}) if o.kind in ("return", "raise")]
            return outs, set("chown" in o.events for o in outs)
        cold = {}
        for uid, gid in ROWS:
            outs, got = spawn(uid, gid, {})
            cold[(uid, gid)] = outs
            want = (uid, gid) != (0, 0)
            ctx.check("C20.R6", got == {want}, key(f, "chown-unless-both-match|%s|%s" % (uid, gid)), site(f, ch[0]),
                      "with the master running as 0:0 and workers configured as %s:%s the heartbeat file is %s (required: %s): a worker that changed only its user or only its group "
                      "cannot update the file and is killed as hung" % (uid, gid, "chowned on some paths only" if len(got) > 1 else ("chowned" if got == {True} else "not chowned"), "chowned" if want else "left alone"),
                      "chown iff an id differs")
        # module state that survives a spawn (a memo of the decision): the next worker may be spawned under a re-loaded
        # configuration (HUP with another `user`/`group`), so the decision of spawn B after spawn A is B's own
        if gkeys:
            for a in ROWS:
                for o in cold[a]:
                    if o.kind != "return":
                        continue
                    carried = {k_: o.env[k_] for k_ in gkeys if k_ in o.env}
                    if not carried:
                        continue
                    for b in ROWS:
                        if b == a:
                            continue
                        outs, got = spawn(b[0], b[1], carried)
                        want = b != (0, 0)
                        ctx.check("C20.R6", got == {want}, key(f, "chown-after-reload|%s:%s->%s:%s" % (a + b)), site(f, ch[0]),
                                  "a worker spawned as %s:%s after one spawned as %s:%s (configuration re-loaded in between, master 0:0) has its heartbeat file %s (required: %s): the decision is "
                                  "remembered in module state [%s] and not re-made for the new ids" % (b[0], b[1], a[0], a[1], "chowned" if got == {True} else ("not chowned" if got == {False} else "chowned on some paths only"),
                                                                                                          "chowned" if want else "left alone", ", ".join(gkeys)), "chown iff an id differs, in every history")
    for c in calls_to(repo, f, [UTIL + ".chown", "os.chown"]):
        ctx.check("C20.R6", [cfg_attr(a) for a in c.args[1:3]] == ["uid", "gid"], key(f, "chown-args"), site(f, c), "the heartbeat file is not chowned to (cfg.uid, cfg.gid)", "chown(.., cfg.uid, cfg.gid)")
    fb = ctx.fn(repo.func("gunicorn.sock.UnixSocket.bind"))
    gb = fb.cfg
    bd = [n for c in method_calls(fb, "bind") if tail(c.func.value) != "super" for n in nodes_with(fb, c)]
    ch = [n for c in calls_to(repo, fb, [UTIL + ".chown", "os.chown"]) for n in nodes_with(fb, c)]
    um = [n for c in calls_to(repo, fb, "os.umask") for n in nodes_with(fb, c)]
    okk = bool(bd) and bool(ch) and len(um) == 2 and all(any(gb.dominates(b, c, follow_exc=False) for b in bd) for c in ch) and gb.dominates(um[0], bd[0], follow_exc=False) and gb.dominates(bd[0], um[1], follow_exc=False)
    ctx.check("C20.R6", okk, key(fb, "bind-chown-umask"), site(fb), "UnixSocket.bind is not `umask(cfg.umask); bind; chown(path, uid, gid); umask(old)`: workers of another user could not accept on / clients not connect to the socket",
              "umask -> bind -> chown -> restore umask")
    if bd and ch:
        # the chown may be skipped only by a test that looks at BOTH ids (as WorkerTmp does)
        both = [(t, lab) for t in gb.tests() for lab in ("true", "false") if "uid" in norm(t.stmt.test if hasattr(t.stmt, "test") else t.ast) and "gid" in norm(t.stmt.test if hasattr(t.stmt, "test") else t.ast)]
        p = gb.path(bd[0], [gb.exit], without_nodes=ch, without_edges=both, follow_exc=False)
        ctx.check("C20.R6", p is None, key(fb, "chown-unconditional"), site(fb, ch[0]),
                  "after bind() the unix socket can be left without chown although only one of user/group differs (e.g. a group-only configuration): the socket stays owned by the master's user/group "
                  "and the configured group cannot connect", "chown on every path after bind", path=p and gb.fmt_path(p))
    for c in calls_to(repo, fb, [UTIL + ".chown", "os.chown"]):
        ctx.check("C20.R6", [tail(a) for a in c.args[1:3]] == ["uid", "gid"], key(fb, "chown-args"), site(fb, c), "the unix socket is not chowned to the configured uid/gid", "chown(addr, conf.uid, conf.gid)")
    for nm in ("validate_user", "validate_group"):
        fv = ctx.fn(repo.func("gunicorn.config." + nm))
        gv = fv.cfg
        rets = gv.stmts(ast.Return)
        okk = bool(rets) and all(r.ast.value is not None and (isinstance(r.ast.value, ast.Name) or "int(" in norm(r.ast.value) or "pw_uid" in norm(r.ast.value) or "gr_gid" in norm(r.ast.value) or "geteuid" in norm(r.ast.value) or "getegid" in norm(r.ast.value)) for r in rets)
        for r in rets:
            if isinstance(r.ast.value, ast.Name):
                nm2 = r.ast.value.id

                def isint(e, nm2=nm2):
                    if isinstance(e, ast.Call) and isinstance(e.func, ast.Name) and e.func.id == "isinstance" and norm(e.args[0]) == nm2 and norm(e.args[1]) == "int":
                        return -1
                    return None
                p, hits = guard_check(fv, [r], isint)
                if p is not None:
                    okk = False
        fall = [a for a, l in gv.exit.inn if not (a.kind == "stmt" and isinstance(a.ast, ast.Return))]
        ctx.check("C20.R6", okk and not fall, key(fv, "returns-id"), site(fv), "%s can return something that is not a numeric id (or fall off the end)" % nm, "int id on every path")
    fc = repo.cls("gunicorn.config.Config")
    for prop, setting in (("uid", "user"), ("gid", "group")):
        m = fc.methods.get(prop)
        ctx.check("C20.R6", m is not None and ("settings['%s']" % setting) in norm(m.node), "Config.%s" % prop, "gunicorn/config.py: Config.%s" % prop, "Config.%s does not read the '%s' setting" % (prop, setting), "cfg.%s <- settings['%s']" % (prop, setting))
