"""Command line: gverif check <Cxx> --tier quick|thorough ; explain ; selfcheck ; mutants ; seeded"""
import argparse
import importlib
import json
import os
import sys
import traceback

from .index import Repo, AnalysisError
from .report import Ctx, VERIF_DIR

PROPS = ["C%02d" % i for i in range(1, 21)]


def default_repo():
    return os.environ.get("GVERIF_REPO", "/repo")


def run_property(prop, repo, tier="quick", seed=0, write=True, quiet=False):
    """-> (status, lines, ctx)"""
    ctx = Ctx(repo, prop, tier=tier, seed=seed, quiet=quiet)
    err = None
    try:
        mod = importlib.import_module("gverif.rules.%s" % prop.lower())
        mod.run(ctx)
        if tier == "thorough" and hasattr(mod, "run_thorough"):
            mod.run_thorough(ctx)
    except AnalysisError as e:
        err = str(e)
    except Exception as e:      # internal error: never a pass, never a VIOLATION
        err = "internal error %s: %s\n%s" % (type(e).__name__, e, traceback.format_exc())
    status, lines = ctx.finish(error=err, write=False)
    return status, lines, ctx, err


def cmd_check(args):
    prop = args.prop.upper()
    if prop not in PROPS:
        print("unknown property %s" % prop)
        return 2
    seed = int(os.environ.get("VERIF_SEED", "0") or 0)
    tier = args.tier or os.environ.get("VERIF_TIER") or "quick"
    try:
        repo = Repo(args.repo or default_repo())
    except AnalysisError as e:
        ctx = Ctx(_Dummy(args.repo or default_repo()), prop, tier, seed)
        st, lines = ctx.finish(error=str(e), write=not args.no_evidence)
        print("\n".join(lines))
        return st
    status, lines, ctx, err = run_property(prop, repo, tier, seed)
    if tier == "thorough" and err is None:
        from . import liveness
        try:
            lv = liveness.run(prop, repo, seed)
            ctx.liveness = lv
            if lv.get("failures"):
                err = "rule liveness failure (engine defect, not a property verdict): %s" % "; ".join(lv["failures"][:5])
        except AnalysisError as e:
            err = "liveness: %s" % e
    status, lines = ctx.finish(error=err, write=not args.no_evidence)
    print("\n".join(lines))
    return status


class _Dummy:
    def __init__(self, root):
        self.root = root


def cmd_all(args):
    repo = Repo(args.repo or default_repo())
    worst = 0
    for p in PROPS:
        try:
            importlib.import_module("gverif.rules.%s" % p.lower())
        except ModuleNotFoundError:
            print("%s: no rules yet" % p)
            continue
        status, lines, ctx, err = run_property(p, repo, args.tier or "quick", 0)
        st, lines = ctx.finish(error=err, write=not args.no_evidence)
        print("\n".join(lines))
        worst = max(worst, st)
    return worst


def cmd_explain(args):
    with open(args.replay) as f:
        rp = json.load(f)
    repo = Repo(args.repo or default_repo())
    status, lines, ctx, err = run_property(rp["property"], repo, "quick", 0)
    hit = [v for v in ctx.violations if v["key"] == rp["key"]]
    if err:
        print("ANALYSIS-ERROR %s" % err)
        return 2
    if hit:
        v = hit[0]
        print("VIOLATION property=%s replay=%s" % (rp["property"], args.replay))
        print("  rule   %s %s" % (v["rule"], ctx.rules.get(v["rule"], "")))
        print("  site   %s" % v["site"])
        if v.get("path"):
            print("  path   %s" % v["path"])
        print("  why    %s" % v["detail"])
        return 1
    print("rule instance %s holds on the current tree" % rp["key"])
    return 0


def cmd_selfcheck(args):
    import compileall
    ok = compileall.compile_dir(os.path.join(VERIF_DIR, "gverif"), quiet=1, force=False)
    try:
        repo = Repo(args.repo or default_repo())
        from . import anchors
        missing = anchors.verify(repo)
        if missing:
            print("ANALYSIS-ERROR missing anchors: %s" % ", ".join(missing))
            return 2
        print("selfcheck ok: %d modules, %d functions, %d classes, %d anchors" % (
            len(repo.modules), len(repo.funcs()), len(repo.classes()), anchors.count()))
    except AnalysisError as e:
        print("ANALYSIS-ERROR %s" % e)
        return 2
    return 0 if ok else 2


def cmd_mutants(args):
    from . import liveness
    repo = Repo(args.repo or default_repo())
    props = [args.prop.upper()] if args.prop else PROPS
    worst = 0
    for p in props:
        lv = liveness.run(p, repo, 0, verbose=True)
        print("%s: %d mutants (%d killed, %d skipped), %d twins (%d silent)" % (
            p, lv["mutants"], lv["killed"], lv["skipped"], lv["twins"], lv["twins_silent"]))
        for f in lv["failures"]:
            print("   FAIL " + f)
            worst = 2
    return worst


def cmd_xref(args):
    """generic cross-reference pass (stands in for mypy's possibly-undefined, which is not installed): path-sensitive
    definite assignment over every function of the package.  Not a property check; its hits are triaged in DESIGN.md."""
    from .defassign import possibly_unbound
    repo = Repo(args.repo or default_repo())
    n = 0
    for f in repo.funcs():
        try:
            ub = possibly_unbound(f)
        except AnalysisError:
            print("skipped (state space too large): %s" % f.qualname)
            continue
        seen = set()
        for nm, node, path in ub:
            if (nm, node.text) in seen:
                continue
            seen.add((nm, node.text))
            n += 1
            print("possibly-unbound %s: `%s` in `%s`" % (f.where, nm, node.text[:80]))
    print("%d candidate(s)" % n)
    return 0


def cmd_seeded(args):
    from . import seeded
    return seeded.run(args)


def cmd_benign(args):
    from . import seeded
    return seeded.run_benign(args)


def main(argv=None):
    ap = argparse.ArgumentParser(prog="gverif")
    sub = ap.add_subparsers(dest="cmd", required=True)
    a = sub.add_parser("check")
    a.add_argument("prop")
    a.add_argument("--tier", choices=["quick", "thorough"])
    a.add_argument("--repo")
    a.add_argument("--no-evidence", action="store_true")
    a.set_defaults(fn=cmd_check)
    a = sub.add_parser("all")
    a.add_argument("--tier", choices=["quick", "thorough"])
    a.add_argument("--repo")
    a.add_argument("--no-evidence", action="store_true")
    a.set_defaults(fn=cmd_all)
    a = sub.add_parser("explain")
    a.add_argument("replay")
    a.add_argument("--repo")
    a.set_defaults(fn=cmd_explain)
    a = sub.add_parser("selfcheck")
    a.add_argument("--repo")
    a.set_defaults(fn=cmd_selfcheck)
    a = sub.add_parser("mutants")
    a.add_argument("prop", nargs="?")
    a.add_argument("--repo")
    a.set_defaults(fn=cmd_mutants)
    a = sub.add_parser("xref")
    a.add_argument("--repo")
    a.set_defaults(fn=cmd_xref)
    a = sub.add_parser("seeded")
    a.add_argument("ids", nargs="*")
    a.add_argument("--repo")
    a.add_argument("--keep", action="store_true")
    a.set_defaults(fn=cmd_seeded)
    a = sub.add_parser("benign")
    a.add_argument("ids", nargs="*")
    a.add_argument("--repo")
    a.add_argument("--dir", default="benign", help="corpus directory under /verif (benign, or benign_limits: correct additions that are known to be reported)")
    a.set_defaults(fn=cmd_benign)
    args = ap.parse_args(argv)
    try:
        return args.fn(args)
    except AnalysisError as e:
        print("ANALYSIS-ERROR %s" % e)
        return 2
    except Exception:
        print("ANALYSIS-ERROR internal error\n%s" % traceback.format_exc())
        return 2


if __name__ == "__main__":
    sys.exit(main())
