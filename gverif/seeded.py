"""Run the checks against the seeded breaking changes kept under /verif/seeded/<id>/.

Each change is applied to an in-memory overlay of the current /repo tree (the patch is
applied with `git apply` to a scratch export under $TMPDIR, which is removed afterwards);
the property named in meta.json must then report a violation.  Not a registered check:
this is the regression harness for the checker itself."""
import json
import os
import shutil
import subprocess
import tempfile

from .index import Repo
from .report import VERIF_DIR


def run(args):
    from .cli import run_property
    base = os.path.join(VERIF_DIR, "seeded")
    ids = args.ids or sorted(d for d in os.listdir(base) if os.path.isdir(os.path.join(base, d)))
    root = args.repo or os.environ.get("GVERIF_REPO", "/repo")
    worst = 0
    for sid in ids:
        d = os.path.join(base, sid)
        meta = json.load(open(os.path.join(d, "meta.json")))
        tmp = tempfile.mkdtemp(prefix="gverif-seeded-")
        try:
            shutil.copytree(os.path.join(root, "gunicorn"), os.path.join(tmp, "gunicorn"), ignore=shutil.ignore_patterns("__pycache__"))
            r = subprocess.run(["git", "apply", "--unsafe-paths", "--directory", tmp, os.path.join(d, "patch.diff")], capture_output=True, text=True, cwd=tmp)
            if r.returncode != 0:
                r = subprocess.run(["patch", "-p1", "-s", "-i", os.path.join(d, "patch.diff")], capture_output=True, text=True, cwd=tmp)
            if r.returncode != 0:
                print("%-28s SKIP patch does not apply: %s" % (sid, (r.stderr or r.stdout).strip()[:120]))
                worst = max(worst, 2)
                continue
            repo = Repo(tmp)
            props = meta.get("properties") or [meta["property"]]
            hit = []
            for p in props:
                st, lines, ctx, err = run_property(p, repo, "quick", 0, write=False)
                for v in ctx.violations:
                    hit.append("%s %s" % (v["rule"], v["site"]))
                if err:
                    hit.append("ANALYSIS-ERROR %s" % err[:100])
            expect = meta.get("expect", "caught")
            if hit and expect == "caught":
                print("%-28s CAUGHT  %s" % (sid, hit[0][:150]))
            elif not hit and expect == "missed":
                print("%-28s missed (recorded as out of reach: %s)" % (sid, meta.get("why_missed", "")[:100]))
            elif not hit:
                print("%-28s MISSED  (expected a violation of %s)" % (sid, props))
                worst = max(worst, 1)
            else:
                print("%-28s caught although recorded as missed: %s" % (sid, hit[0][:120]))
        finally:
            shutil.rmtree(tmp, ignore_errors=True)
    return worst
