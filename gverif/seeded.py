"""Regression harness of the checker itself over the two stored corpora:

  seeded/<id>/   breaking changes written by independent sub-agents (patch.diff, demo, meta.json): the property named in
                 meta.json must report a violation on the patched tree;
  benign/<id>/   behaviour-preserving refactorings written by independent sub-agents (patch.diff, notes.md): all twenty
                 checks must stay silent on the patched tree.

Patches are applied in memory (gverif.patchutil) as an overlay over the tree under analysis: nothing is written anywhere.
Not a registered check; the thorough tier of every property runs its share of both corpora (gverif.liveness)."""
import json
import os

from .index import Repo, AnalysisError
from .report import VERIF_DIR
from . import patchutil


def corpus(kind):
    base = os.path.join(VERIF_DIR, kind)
    out = []
    if not os.path.isdir(base):
        return out
    for d in sorted(os.listdir(base)):
        p = os.path.join(base, d, "patch.diff")
        if os.path.isfile(p):
            out.append((d, os.path.join(base, d)))
    return out


def overlay_of(repo, d):
    with open(os.path.join(d, "patch.diff"), encoding="utf-8") as f:
        return patchutil.overlay(repo, f.read())


def _job(job):
    kind, sid, d, root, props = job
    from .cli import run_property
    try:
        base = Repo(root, inline=False)
        ov = overlay_of(base, d)
        if ov is None:
            return kind, sid, "skip", ["patch does not apply to the current tree"]
        repo = Repo(root, overlay=ov)
    except AnalysisError as e:
        return kind, sid, "error", [str(e)]
    hit = []
    for p in props:
        st, lines, ctx, err = run_property(p, repo, "quick", 0, write=False)
        for v in ctx.violations:
            hit.append("%s %s :: %s" % (v["rule"], v["site"], v["detail"][:160]))
        if err:
            hit.append("%s ANALYSIS-ERROR %s" % (p, err[:160]))
    return kind, sid, "done", hit


def _pool(jobs):
    import multiprocessing
    n = min(len(jobs), int(os.environ.get("GVERIF_JOBS", "0")) or (os.cpu_count() or 1), 16)
    if n <= 1:
        return [_job(j) for j in jobs]
    try:
        with multiprocessing.get_context("fork").Pool(n) as pool:
            return pool.map(_job, jobs, chunksize=1)
    except Exception:
        return [_job(j) for j in jobs]


def run(args):
    from .cli import PROPS
    root = args.repo or os.environ.get("GVERIF_REPO", "/repo")
    worst = 0
    jobs = []
    for sid, d in corpus("seeded"):
        if args.ids and sid not in args.ids:
            continue
        meta = json.load(open(os.path.join(d, "meta.json")))
        jobs.append(("seeded", sid, d, root, meta.get("properties") or [meta["property"]]))
    for kind, sid, state, hit in _pool(jobs):
        if state != "done":
            print("%-28s SKIP %s" % (sid, hit[0][:120]))
            worst = max(worst, 2)
        elif hit:
            print("%-28s CAUGHT  %s" % (sid, hit[0][:150]))
        else:
            print("%-28s MISSED" % sid)
            worst = max(worst, 1)
    return worst


def run_benign(args):
    from .cli import PROPS
    root = args.repo or os.environ.get("GVERIF_REPO", "/repo")
    jobs = [("benign", sid, d, root, PROPS) for sid, d in corpus(getattr(args, "dir", None) or "benign") if not args.ids or sid in args.ids]
    worst = 0
    for kind, sid, state, hit in _pool(jobs):
        if state != "done":
            print("%-28s SKIP %s" % (sid, hit[0][:120]))
        elif hit:
            worst = 1
            print("%-28s %d ALARM(S)" % (sid, len(hit)))
            for h in hit[:8]:
                print("      " + h[:300])
        else:
            print("%-28s silent" % sid)
    return worst
