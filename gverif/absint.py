"""A6: finite abstract interpretation of one function's CFG (decision tables).

A valuation of a handful of *tracked* expressions (atoms) is pushed through the CFG by a
tiny evaluator that understands only control flow, boolean connectives, comparisons,
constants, tuples and a whitelist of pure str/bytes/len operations applied to values that
come from the *specification side* (the valuation).  Anything else evaluates to UNKNOWN
and makes both branches of a test explorable.  No repo code is executed, no solver used.
"""
import ast

from .index import AnalysisError


class _Unknown:
    def __repr__(self):
        return "UNKNOWN"

    def __bool__(self):
        raise TypeError("truth value of UNKNOWN")


UNKNOWN = _Unknown()


class _Refined:
    """an otherwise unknown value of which only the truthiness is known (learnt from a branch)"""

    def __init__(self, truth):
        self.truth = truth

    def __bool__(self):
        return self.truth

    def __repr__(self):
        return "TRUTHY" if self.truth else "FALSY"

    def __eq__(self, other):
        return isinstance(other, _Refined) and other.truth == self.truth

    def __hash__(self):
        return hash(("refined", self.truth))


TRUTHY, FALSY = _Refined(True), _Refined(False)


class SpecObj:
    """a specification-side stand-in for a run-time object: plain attributes and zero/any-argument
    callables defined by the *rule* (never repository code)"""

    def __init__(self, **kw):
        self.__dict__.update(kw)

    def __repr__(self):
        return "SpecObj(%s)" % ", ".join("%s=%r" % kv for kv in sorted(self.__dict__.items()) if not callable(kv[1]))


class Inst(SpecObj):
    """a stand-in for an instance of a (repo or builtin) class: `isinstance` and `hasattr` on it are decided from the
    class hierarchy and the attributes given by the rule"""

    def __init__(self, cls, **kw):
        SpecObj.__init__(self, **kw)
        self.__dict__["_cls"] = cls

    def __repr__(self):
        return "Inst(%s)" % self._cls

    def __str__(self):
        return self.__dict__.get("_str") or repr(self)

    def __eq__(self, other):
        return self is other

    def __hash__(self):
        return hash(("inst", self._cls))


class Ref:
    """a named heap object: its attributes live in env["@heap"] under (name, attr), so a store through one local is
    seen through every other local that holds the same Ref (real aliasing, unlike the path-keyed valuation)"""

    def __init__(self, name, cls=None):
        self.name = name
        self._cls = cls

    def __eq__(self, other):
        return isinstance(other, Ref) and other.name == self.name

    def __hash__(self):
        return hash(("ref", self.name))

    def __repr__(self):
        return "Ref(%s)" % self.name


HEAP = "@heap"


def heap_get(env, ref, attr):
    return env.get(HEAP, {}).get((ref.name, attr), UNKNOWN)


class ByteBuf:
    """immutable stand-in for an io.BytesIO used append-only (write at the end, getvalue, tell = fill level)"""

    def __init__(self, content=b""):
        self.content = content

    def __eq__(self, other):
        return isinstance(other, ByteBuf) and other.content == self.content

    def __hash__(self):
        return hash(("bytebuf", self.content))

    def __repr__(self):
        return "ByteBuf(%r)" % (self.content,)


def refine(ex, test_ast, env, label):
    """environment on the `label` edge of a test that evaluated to UNKNOWN: a bare variable
    (or `not var`) test teaches its truthiness"""
    e = test_ast
    truth = label == "true"
    while isinstance(e, ast.UnaryOp) and isinstance(e.op, ast.Not):
        e = e.operand
        truth = not truth
    if isinstance(e, (ast.Name, ast.Attribute)):
        k = ex.key_of(e)
        if k is not None and k not in ex.frozen:
            env = dict(env)
            env[k] = TRUTHY if truth else FALSY
    return env

def _pure_funcs():
    import textwrap, html, os.path, urllib.parse
    return {"textwrap.dedent": textwrap.dedent, "html.escape": html.escape, "os.path.basename": os.path.basename,
            "os.path.dirname": os.path.dirname, "os.path.join": os.path.join, "urllib.parse.urlsplit": urllib.parse.urlsplit,
            "urllib.parse.unquote_to_bytes": urllib.parse.unquote_to_bytes, "urllib.parse.SplitResult": urllib.parse.SplitResult,
            "urllib.parse.urlparse": urllib.parse.urlparse, "urllib.parse.unquote": urllib.parse.unquote}


PURE_FUNCS = _pure_funcs()
MUTATORS = {"append", "add", "appendleft", "extend", "insert", "pop", "popleft", "remove", "clear", "sort", "reverse",
            "discard", "update", "setdefault", "popitem", "rotate"}
PURE_METHODS = {"lower", "upper", "strip", "lstrip", "rstrip", "startswith", "endswith", "casefold",
                "split", "isdigit", "isnumeric", "isdecimal", "find", "get", "keys", "items", "values", "count",
                "join", "encode", "decode", "replace", "partition", "rpartition", "rsplit", "title", "isalpha", "isalnum",
                "isspace", "isupper", "islower", "rfind", "index", "zfill", "hex", "capitalize", "swapcase", "group", "groups",
                "translate", "isascii", "removeprefix", "removesuffix", "expandtabs", "splitlines", "copy", "end", "start", "span"}


def _is_builtin_class(name):
    import builtins
    return isinstance(getattr(builtins, name, None), type)


class Raises:
    """a rule-supplied atom value meaning: evaluating this expression raises the named exception (`pwd.getpwuid` for an
    unknown uid, ...)"""

    def __init__(self, name):
        self.name = name

    def __repr__(self):
        return "Raises(%s)" % self.name

    def __eq__(self, other):
        return isinstance(other, Raises) and other.name == self.name

    def __hash__(self):
        return hash(("raises", self.name))


class EvalRaise(Exception):
    """evaluating an expression on known values raises a builtin exception (int('x') -> ValueError)"""

    def __init__(self, name):
        Exception.__init__(self, name)
        self.name = name


class Outcome:
    def __init__(self, kind, detail, env, events, path):
        self.kind = kind          # 'return' | 'raise' | 'stop' | 'noreturn'
        self.detail = detail
        self.env = env
        self.events = events
        self.path = path

    def __repr__(self):
        return "<%s %s %s>" % (self.kind, self.detail, sorted(self.events))


class Explorer:
    def __init__(self, func, atom_of=None, tracked=None, max_states=40000, follow_implicit_exc=False, frozen=None, track_locals=True, inline_depth=2,
                 enter=None, call_trace=None, enter_depth=2, bind_defaults=False):
        """enter: predicate(qualname) -> bool; a statement-position call `self.m(..)` / `f(..)` / `x = self.m(..)` to a function of the
        tree it accepts is *entered*: the callee is explored with the caller's `self.*` valuation and its outcomes (changed
        `self.*`, return value, raised class, traced calls) continue the caller's exploration -- effects included, unlike the
        value-only `_inline`.  call_trace: {call target: fn(ex, call, env) -> value}; every evaluated call to such a target, in
        the function or in an entered callee, appends (target, value) to the ordered trace env["@trace"]."""
        self.enter = enter
        self.bind_defaults = bind_defaults      # run() from the entry: parameters the valuation does not mention take their default
        self.call_trace = call_trace or {}
        self.enter_depth = enter_depth
        self.func = func
        self.repo = func.module._repo
        self.cfg = func.cfg
        self.atom_of = atom_of or (lambda e: None)
        self.tracked = set(tracked or ())
        self.frozen = set(frozen or ())
        # a local assigned once from an attribute path is another name for that path (`cfg = self.cfg`) -- unless this
        # function itself assigns the path (`alive = self.alive` ... `self.alive = False`): then it is a snapshot
        stored = set()
        for n in ast.walk(func.node):
            if isinstance(n, ast.Attribute) and isinstance(n.ctx, (ast.Store, ast.Del)):
                q = self.repo.resolve(func.module, func, n)
                if q:
                    stored.add(q)
        self.snapshots = set()
        for nm, expr in func.aliases.items():
            q = self.repo.resolve(func.module, func, expr)
            if q and any(q == sp or q.startswith(sp + ".") for sp in stored):
                self.snapshots.add(nm)
        if track_locals:
            self.tracked |= (set(func.locals) - set(func.aliases)) | self.snapshots
            # module names the function rebinds (`global memo`): part of the state, under their qualified name
            for gn in getattr(func, "global_names", ()):
                self.tracked.add("%s.%s" % (func.module.name, gn))
        self.max_states = max_states
        self.follow_implicit_exc = follow_implicit_exc
        self.unknown_tests = []       # tests that evaluated to UNKNOWN (for diagnostics)
        self.inline_depth = inline_depth

    # ---------------------------------------------------------------- eval
    def _route_exc(self, node, exc_name):
        """where an exception of class `exc_name` raised by `node` goes: the exception successors of the node are ordered from the
        innermost try outward; a clause that catches the class (class hierarchy of the builtins and of the repository) ends the
        search, one that cannot catch it is skipped, one the analysis cannot judge is taken *and* the search goes on"""
        out = []
        q = exc_name if "." in exc_name or self.repo.has_cls(exc_name) else exc_name
        for b, l in node.out:
            if l != "exc":
                continue
            if b.kind != "handler":
                out.append(b)
                break
            if b.ast.type is None:
                out.append(b)
                break
            elts = b.ast.type.elts if isinstance(b.ast.type, ast.Tuple) else [b.ast.type]
            verdict = "no"
            for t in elts:
                tq = self.repo.resolve(self.func.module, self.func, t) or ast.unparse(t)
                from .index import builtin_exc as _bx
                known = (self.repo.has_cls(tq) or _bx(tq) is not None) and (self.repo.has_cls(q) or _bx(q) is not None)
                if self.repo.is_subclass(q, tq):
                    verdict = "yes"
                    break
                if not known:
                    verdict = "maybe"
            if verdict == "no":
                continue
            out.append(b)
            if verdict == "yes":
                break
        if not out and not any(l == "exc" for _, l in node.out):
            # a statement the CFG gives no exception edge (no enclosing try): the exception leaves the function
            out.append(self.cfg.raise_exit)
        return out

    def key_of(self, e):
        k = self.atom_of(e)
        if k is not None:
            return k
        if isinstance(e, ast.Name) and e.id in self.snapshots:
            return e.id
        if isinstance(e, ast.Attribute):
            root = e
            while isinstance(root, ast.Attribute):
                root = root.value
            if isinstance(root, ast.Name) and root.id in self.snapshots:
                # attribute of a snapshot local: its own key, not the aliased path
                from .astutil import dotted as _d
                return _d(e)
        if isinstance(e, (ast.Name, ast.Attribute)):
            return self.repo.resolve(self.func.module, self.func, e)
        return None

    def ev(self, e, env):
        sub = getattr(self, "_subst", None)
        if sub and id(e) in sub:
            return sub[id(e)]
        if HEAP in env and isinstance(e, ast.Attribute):
            b = self.ev(e.value, env)
            if isinstance(b, Ref):
                return heap_get(env, b, e.attr)
        k = self.key_of(e)
        if k is not None and k in env:
            if isinstance(env[k], Raises):
                raise EvalRaise(env[k].name)
            return env[k]
        r = self._ev(e, env, k)
        return r

    def _ev(self, e, env, k):
        if isinstance(e, ast.Constant):
            return e.value
        if isinstance(e, ast.Name) and e.id in self.func.aliases and e.id not in env and self.func.aliases[e.id] is not e:
            # single-assignment local alias of an attribute chain (`pool = server.pool`): the value of the chain
            return self.ev(self.func.aliases[e.id], env)
        if isinstance(e, (ast.Name, ast.Attribute)) and k is not None and (self.repo.has_cls(k) or k in ("ssl.SSLError",) or
                                                                           (isinstance(e, ast.Name) and k == e.id and k not in self.func.locals and _is_builtin_class(k))):
            from .index import ClassRef
            return ClassRef(self.repo.canonical(k))
        if isinstance(e, (ast.Name, ast.Attribute)) and k is not None and k.startswith("gunicorn."):
            # module-level / class-level constant of the repository (folded, never executed)
            try:
                m, ce = self.repo.const_expr(k)
                v = self.repo.fold(m, ce, symbolic=True)
                from .index import Regex as _Rx
                if isinstance(v, (int, float, str, bytes, tuple, bool, dict, frozenset, _Rx)) or v is None:
                    return v
                if isinstance(v, (list, set)):
                    return tuple(v) if isinstance(v, list) else frozenset(v)
            except Exception:
                pass
        if isinstance(e, ast.Attribute) and k is not None and k.count(".") == 1 and e.attr.isupper() and isinstance(e.value, ast.Name) \
                and self.func.cls is not None and self.func.params and e.value.id == self.func.params[0] \
                and e.attr not in self.repo.mutated_attrs():
            # class-level constant read through the instance (`self.WORKER_BOOT_ERROR`, `self.STOP_SIGNALS`)
            for cq in self.repo.mro(self.func.cls.qualname):
                ci = self.repo._classes.get(cq)
                if ci is not None and e.attr in ci.attrs:
                    try:
                        v = self.repo.fold(ci.module, ci.attrs[e.attr], symbolic=True, scope=ci.attrs)
                    except Exception:
                        break
                    if isinstance(v, list):
                        v = tuple(v)
                    if isinstance(v, (int, float, str, bytes, tuple, bool, dict, frozenset)) or v is None:
                        return v
                    break
        if isinstance(e, ast.Attribute) and k is not None and "." in k:
            # symbolic constant of an imported module (signal.SIGTERM, errno.ESRCH, ...)
            root = e
            while isinstance(root, ast.Attribute):
                root = root.value
            if isinstance(root, ast.Name) and root.id in self.func.module.imports and root.id not in self.func.locals \
                    and not k.startswith("gunicorn."):
                return "@" + k
        if isinstance(e, (ast.Tuple, ast.List)):
            vals = [self.ev(x, env) for x in e.elts]
            if any(v is UNKNOWN for v in vals):
                return UNKNOWN
            return tuple(vals)
        if isinstance(e, (ast.ListComp, ast.GeneratorExp, ast.SetComp, ast.DictComp)):
            out = []

            def gen(i, env2):
                if i == len(e.generators):
                    if isinstance(e, ast.DictComp):
                        out.append((self.ev(e.key, env2), self.ev(e.value, env2)))
                    else:
                        out.append(self.ev(e.elt, env2))
                    return True
                g = e.generators[i]
                seq = self.ev(g.iter, env2)
                if isinstance(seq, (type({}.items()), type({}.keys()), type({}.values()))):
                    seq = tuple(seq)
                if seq is UNKNOWN or isinstance(seq, _Refined) or not isinstance(seq, (tuple, list, str, bytes, dict, set, frozenset)):
                    return False
                for item in seq:
                    env3 = dict(env2)
                    for tt, vv in _bind(g.target, item):
                        k2 = self.key_of(tt)
                        if k2 is None:
                            return False
                        env3[k2] = vv
                    ok = True
                    for cond in g.ifs:
                        c = self.ev(cond, env3)
                        if c is UNKNOWN:
                            return False
                        if not c:
                            ok = False
                            break
                    if ok and not gen(i + 1, env3):
                        return False
                return True
            if isinstance(e, ast.DictComp):
                if not gen(0, env) or any(k is UNKNOWN for k, _v in out):
                    return UNKNOWN
                try:
                    return dict(out)
                except TypeError:
                    return UNKNOWN
            if not gen(0, env) or any(x is UNKNOWN for x in out):
                return UNKNOWN
            return tuple(out)
        if isinstance(e, ast.Dict):
            try:
                ks = [self.ev(x, env) for x in e.keys]
                vs = [self.ev(x, env) for x in e.values]
            except Exception:
                return UNKNOWN
            if any(x is UNKNOWN for x in ks):
                return UNKNOWN
            try:
                return dict(zip(ks, vs))
            except TypeError:
                return UNKNOWN
        if isinstance(e, ast.UnaryOp):
            v = self.ev(e.operand, env)
            if v is UNKNOWN:
                return UNKNOWN
            if isinstance(e.op, ast.Not):
                return not v
            if isinstance(e.op, ast.USub):
                return -v
            return UNKNOWN
        if isinstance(e, ast.BoolOp):
            res = None
            unknown = False
            for x in e.values:
                v = self.ev(x, env)
                if v is UNKNOWN:
                    unknown = True
                    continue
                if isinstance(e.op, ast.And) and not v:
                    return v
                if isinstance(e.op, ast.Or) and v:
                    return v
                res = v
            return UNKNOWN if unknown else res
        if isinstance(e, ast.IfExp):
            c = self.ev(e.test, env)
            if c is UNKNOWN:
                a, b = self.ev(e.body, env), self.ev(e.orelse, env)
                if a is not UNKNOWN and b is not UNKNOWN and a == b:
                    return a
                return UNKNOWN
            return self.ev(e.body if c else e.orelse, env)
        if isinstance(e, ast.Compare):
            left = self.ev(e.left, env)
            res = True
            for op, r in zip(e.ops, e.comparators):
                right = self.ev(r, env)
                if left is UNKNOWN or right is UNKNOWN or isinstance(left, _Refined) or isinstance(right, _Refined):
                    return UNKNOWN
                try:
                    if isinstance(op, ast.Eq):
                        ok = left == right
                    elif isinstance(op, ast.NotEq):
                        ok = left != right
                    elif isinstance(op, ast.Lt):
                        ok = left < right
                    elif isinstance(op, ast.LtE):
                        ok = left <= right
                    elif isinstance(op, ast.Gt):
                        ok = left > right
                    elif isinstance(op, ast.GtE):
                        ok = left >= right
                    elif isinstance(op, ast.Is):
                        ok = left is right
                    elif isinstance(op, ast.IsNot):
                        ok = left is not right
                    elif isinstance(op, ast.In):
                        ok = left in right
                    elif isinstance(op, ast.NotIn):
                        ok = left not in right
                    else:
                        return UNKNOWN
                except TypeError:
                    return UNKNOWN
                if not ok:
                    return False
                left = right
            return res
        if isinstance(e, ast.Slice):
            lo = self.ev(e.lower, env) if e.lower is not None else None
            hi = self.ev(e.upper, env) if e.upper is not None else None
            if lo is UNKNOWN or hi is UNKNOWN or e.step is not None:
                return UNKNOWN
            return slice(lo, hi)
        if isinstance(e, ast.Subscript):
            v = self.ev(e.value, env)
            i = self.ev(e.slice, env)
            if v is UNKNOWN or i is UNKNOWN:
                return UNKNOWN
            try:
                return v[i]
            except Exception:
                return UNKNOWN
        if isinstance(e, ast.JoinedStr) or (isinstance(e, ast.BinOp) and isinstance(e.op, ast.Mod) and isinstance(e.left, ast.Constant) and isinstance(e.left.value, str)) \
                or (isinstance(e, ast.Call) and isinstance(e.func, ast.Attribute) and e.func.attr == "format" and isinstance(e.func.value, ast.Constant)):
            from .astutil import fmt_parts
            parts = fmt_parts(e)
            if parts is None:
                return UNKNOWN
            out = []
            for p in parts:
                if isinstance(p, str):
                    out.append(p)
                    continue
                v = self.ev(p[1], env)
                if v is UNKNOWN or isinstance(v, _Refined):
                    return UNKNOWN
                try:
                    if p[2] == "s":
                        out.append(str(v))
                    elif p[2] in ("r", "a"):
                        out.append(repr(v))
                    elif p[2] in ("d", "i", "x", "X", "o", "f", "c"):
                        out.append(("%" + p[2]) % v)
                    else:
                        return UNKNOWN
                except Exception:
                    return UNKNOWN
            return "".join(out)
        if isinstance(e, ast.BinOp):
            l, r = self.ev(e.left, env), self.ev(e.right, env)
            if l is UNKNOWN or r is UNKNOWN:
                return UNKNOWN
            try:
                if isinstance(e.op, ast.Add):
                    return l + r
                if isinstance(e.op, ast.Sub):
                    return l - r
                if isinstance(e.op, ast.Mult):
                    return l * r
                if isinstance(e.op, ast.Mod) and isinstance(l, (str, bytes)) and not isinstance(r, (SpecObj, _Refined)):
                    return l % r
                if isinstance(e.op, ast.Mod) and isinstance(l, str) and isinstance(r, SpecObj):
                    return l % (str(r),)
                if isinstance(l, int) and isinstance(r, int) and not isinstance(l, bool) and not isinstance(r, bool):
                    if isinstance(e.op, ast.RShift):
                        return l >> r
                    if isinstance(e.op, ast.LShift):
                        return l << r
                    if isinstance(e.op, ast.BitAnd):
                        return l & r
                    if isinstance(e.op, ast.BitOr):
                        return l | r
                    if isinstance(e.op, ast.FloorDiv) and r != 0:
                        return l // r
                    if isinstance(e.op, ast.Mod) and r != 0:
                        return l % r
            except Exception:
                return UNKNOWN
            return UNKNOWN
        if isinstance(e, ast.Attribute):
            base = self.ev(e.value, env)
            if isinstance(base, SpecObj) and hasattr(base, e.attr):
                return getattr(base, e.attr)
            if isinstance(base, tuple) and e.attr in getattr(base, "_fields", ()):      # named tuple (urlsplit result)
                return getattr(base, e.attr)
            return UNKNOWN
        if isinstance(e, ast.Call):
            v = self._inline(e, env)
            if v is not UNKNOWN:
                return v
            qf = self.repo.call_target(self.func.module, self.func, e) if isinstance(e.func, (ast.Name, ast.Attribute)) else None
            if qf in PURE_FUNCS:
                # a side-effect free standard-library function applied to known values
                args = [self.ev(a, env) for a in e.args]
                kws = {k.arg: self.ev(k.value, env) for k in e.keywords if k.arg}
                if any(a is UNKNOWN or isinstance(a, (_Refined, SpecObj)) for a in args + list(kws.values())) or any(k.arg is None for k in e.keywords):
                    return UNKNOWN
                try:
                    return PURE_FUNCS[qf](*args, **kws)
                except Exception:
                    return UNKNOWN
            if qf == "io.BytesIO" and not e.args and not e.keywords:
                return ByteBuf(b"")
            if isinstance(e.func, ast.Attribute) and e.func.attr in ("getvalue", "tell") and not e.args:
                bb = self.ev(e.func.value, env)
                if isinstance(bb, ByteBuf):
                    return bb.content if e.func.attr == "getvalue" else len(bb.content)
            if isinstance(e.func, ast.Attribute) and e.func.attr == "_replace" and not e.args:
                recv = self.ev(e.func.value, env)
                if isinstance(recv, tuple) and hasattr(recv, "_fields"):
                    kws = {k.arg: self.ev(k.value, env) for k in e.keywords if k.arg}
                    if any(v is UNKNOWN for v in kws.values()) or any(k.arg is None for k in e.keywords):
                        return UNKNOWN
                    try:
                        return recv._replace(**kws)
                    except Exception:
                        return UNKNOWN
            if isinstance(e.func, ast.Attribute) and e.func.attr == "format":
                recv = self.ev(e.func.value, env)
                if isinstance(recv, str):
                    args = [self.ev(a, env) for a in e.args]
                    kws = {k.arg: self.ev(k.value, env) for k in e.keywords if k.arg}
                    if any(a is UNKNOWN or isinstance(a, _Refined) for a in args + list(kws.values())) or any(k.arg is None for k in e.keywords):
                        return UNKNOWN
                    try:
                        return recv.format(*[str(a) if isinstance(a, SpecObj) else a for a in args], **kws)
                    except Exception:
                        return UNKNOWN
            if isinstance(e.func, ast.Attribute) and not e.keywords:
                base = self.ev(e.func.value, env)
                if isinstance(base, SpecObj) and callable(getattr(base, e.func.attr, None)):
                    args = [self.ev(a, env) for a in e.args]
                    if any(a is UNKNOWN for a in args):
                        return UNKNOWN
                    return getattr(base, e.func.attr)(*args)
            if isinstance(e.func, ast.Name) and e.func.id in ("set", "frozenset", "list", "tuple", "dict") and not e.args and not e.keywords and e.func.id not in self.func.locals:
                # an empty container (sets and lists are modelled as tuples: membership, truth and iteration are what is asked)
                return {} if e.func.id == "dict" else ()
            if isinstance(e.func, ast.Name) and e.func.id in ("set", "frozenset") and len(e.args) == 1 and not e.keywords and e.func.id not in self.func.locals:
                v = self.ev(e.args[0], env)
                if isinstance(v, (tuple, list, frozenset, set, str, bytes)):
                    out_ = []
                    try:
                        for x in v:
                            if x not in out_:
                                out_.append(x)
                    except Exception:
                        return UNKNOWN
                    return tuple(out_)
                return UNKNOWN
            if isinstance(e.func, ast.Name) and e.func.id in ("any", "all", "sum", "sorted", "list", "tuple") and len(e.args) == 1 and not e.keywords:
                v = self.ev(e.args[0], env)
                if v is UNKNOWN or isinstance(v, _Refined):
                    return UNKNOWN
                try:
                    return {"any": any, "all": all, "sum": sum, "sorted": lambda x: tuple(sorted(x)), "list": tuple, "tuple": tuple}[e.func.id](v)
                except Exception:
                    return UNKNOWN
            if isinstance(e.func, ast.Attribute) and e.func.attr in ("finditer", "findall", "split", "sub") and e.args and not e.keywords:
                # the other pure entry points of a pattern constant applied to known text
                from .index import Regex as _Rx0
                rx0 = self.ev(e.func.value, env)
                if isinstance(rx0, _Rx0):
                    args0 = [self.ev(a, env) for a in e.args]
                    if all(isinstance(a, (str, bytes, int)) for a in args0) and any(type(a) is type(rx0.pattern) for a in args0):
                        import re as _re0
                        try:
                            r0 = getattr(_re0.compile(rx0.pattern, rx0.flags), e.func.attr)(*args0)
                            return tuple(r0) if e.func.attr in ("finditer", "findall", "split") else r0
                        except Exception:
                            return UNKNOWN
                    return UNKNOWN
            if isinstance(e.func, ast.Name) and e.func.id == "map" and len(e.args) == 2 and not e.keywords and e.func.id not in self.func.locals \
                    and isinstance(e.args[0], ast.Name) and e.args[0].id in ("str", "int", "len", "repr", "bool", "ord", "chr", "abs") and e.args[0].id not in self.func.locals:
                # map(<pure builtin>, known sequence)
                seq0 = self.ev(e.args[1], env)
                if isinstance(seq0, (tuple, list, str, bytes)) and not any(x is UNKNOWN for x in seq0):
                    try:
                        return tuple(map({"str": str, "int": int, "len": len, "repr": repr, "bool": bool, "ord": ord, "chr": chr, "abs": abs}[e.args[0].id], seq0))
                    except Exception:
                        return UNKNOWN
                return UNKNOWN
            if isinstance(e.func, ast.Name) and e.func.id == "enumerate" and 1 <= len(e.args) <= 2 and not e.keywords:
                seq0 = self.ev(e.args[0], env)
                st0 = self.ev(e.args[1], env) if len(e.args) == 2 else 0
                if isinstance(seq0, (tuple, list, str, bytes)) and isinstance(st0, int):
                    return tuple(enumerate(seq0, st0))
                return UNKNOWN
            if isinstance(e.func, ast.Attribute) and e.func.attr in ("fullmatch", "match", "search") and len(e.args) == 1 and not e.keywords:
                # a pattern constant of the repository applied to a known string: the (pure) regular-expression library
                # decides; the pattern is data, no repository code runs
                from .index import Regex as _Rx
                rx = self.ev(e.func.value, env)
                if isinstance(rx, _Rx):
                    arg = self.ev(e.args[0], env)
                    if isinstance(arg, (str, bytes)) and type(arg) is type(rx.pattern):
                        import re as _re
                        try:
                            return getattr(_re.compile(rx.pattern, rx.flags), e.func.attr)(arg)
                        except Exception:
                            return UNKNOWN
                    return UNKNOWN
            if isinstance(e.func, ast.Attribute) and e.func.attr == "pop" and not e.keywords and 1 <= len(e.args) <= 2:
                # `<dict>.pop(k[, default])` inside a larger expression: the value taken (the removal itself is applied only
                # for the statement forms, see _apply); a missing key without default raises
                recv = self.ev(e.func.value, env)
                if isinstance(recv, dict):
                    args = [self.ev(a, env) for a in e.args]
                    if args[0] is UNKNOWN or not isinstance(args[0], (str, bytes, int, tuple)):
                        return UNKNOWN
                    if args[0] in recv:
                        return recv[args[0]]
                    if len(args) == 2:
                        return args[1]
                    raise EvalRaise("KeyError")
            if isinstance(e.func, ast.Attribute) and e.func.attr in PURE_METHODS and not e.keywords:
                recv = self.ev(e.func.value, env)
                args = [self.ev(a, env) for a in e.args]
                if recv is UNKNOWN or any(a is UNKNOWN for a in args):
                    return UNKNOWN
                import re as _re2
                if isinstance(recv, (str, bytes, tuple, dict)) or (isinstance(recv, _re2.Match) and e.func.attr in ("group", "groups", "end", "start", "span")):
                    try:
                        return getattr(recv, e.func.attr)(*args)
                    except Exception:
                        return UNKNOWN
                return UNKNOWN
            if isinstance(e.func, ast.Name) and e.func.id in ("len", "str", "bool", "int", "min", "max") and not e.keywords:
                args = [self.ev(a, env) for a in e.args]
                if any(a is UNKNOWN for a in args):
                    return UNKNOWN
                try:
                    return {"len": len, "str": str, "bool": bool, "int": int, "min": min, "max": max}[e.func.id](*args)
                except ValueError:
                    if e.func.id == "int" and all(isinstance(a, (str, bytes, int)) and not isinstance(a, bool) for a in args):
                        raise EvalRaise("ValueError")
                    return UNKNOWN
                except Exception:
                    return UNKNOWN
            if isinstance(e.func, ast.Name) and e.func.id == "range" and e.func.id not in self.func.locals and 1 <= len(e.args) <= 3 and not e.keywords:
                args = [self.ev(a, env) for a in e.args]
                if all(isinstance(a, int) and not isinstance(a, bool) for a in args):
                    try:
                        r = range(*args)
                        if len(r) <= 4096:
                            return tuple(r)
                    except Exception:
                        pass
                return UNKNOWN
            if isinstance(e.func, ast.Name) and e.func.id == "getattr" and len(e.args) in (2, 3) and not e.keywords:
                # getattr(obj, "name"[, default]) with a known name is the attribute access `obj.name`
                nm = self.ev(e.args[1], env)
                if isinstance(nm, str) and nm.isidentifier():
                    att = ast.copy_location(ast.Attribute(value=e.args[0], attr=nm, ctx=ast.Load()), e)
                    v = self.ev(att, env)
                    if v is not UNKNOWN or len(e.args) == 2:
                        return v
                return UNKNOWN
            if isinstance(e.func, ast.Name) and e.func.id == "hasattr" and len(e.args) == 2:
                v = self.ev(e.args[0], env)
                nm = self.ev(e.args[1], env)
                if isinstance(v, Inst) and isinstance(nm, str):
                    return nm in v.__dict__ and not nm.startswith("_")
                return UNKNOWN
            if isinstance(e.func, ast.Name) and e.func.id == "isinstance" and len(e.args) == 2:
                v = self.ev(e.args[0], env)
                if v is UNKNOWN:
                    return UNKNOWN
                if isinstance(v, Inst):
                    from .index import ClassRef
                    t = self.ev(e.args[1], env)
                    ts = t if isinstance(t, tuple) else (t,)
                    if ts and all(isinstance(x, ClassRef) for x in ts):
                        return any(self.repo.is_subclass(v._cls, x.q) for x in ts)
                    return UNKNOWN
                tn = ast.unparse(e.args[1])
                types = {"tuple": tuple, "str": str, "bytes": bytes, "int": int, "list": list, "dict": dict}
                if tn in types:
                    return isinstance(v, types[tn])
                return UNKNOWN
            return UNKNOWN
        return UNKNOWN

    def _inline(self, call, env):
        """value of a call to a repo function (same class via self., or module level) when the callee's result is
        determined by the valuation: the guard may have been extracted into a helper (DESIGN 3.1 A4, depth <= 2).
        Only the return value is used; callee side effects on tracked state are not modelled."""
        if self.inline_depth <= 0:
            return UNKNOWN
        q = self.repo.call_target(self.func.module, self.func, call)
        if not q or not q.startswith("gunicorn.") or not self.repo.has_func(q):
            return UNKNOWN
        callee = self.repo.func(q)
        if callee is self.func or any(isinstance(n, (ast.Yield, ast.YieldFrom)) for n in ast.walk(callee.node)):
            return UNKNOWN
        params = list(callee.params)
        is_method = callee.cls is not None and params and params[0] == "self"
        names = params[1:] if is_method else params
        if len(call.args) > len(names) or any(k.arg is None for k in call.keywords):
            return UNKNOWN
        env2 = {}
        # the callee sees the same `self.*` / module valuation
        for k, v in env.items():
            if k.startswith("self.") or "." in k or k.isupper():
                env2[k] = v
        for nm, a in zip(names, call.args):
            env2[nm] = self.ev(a, env)
        for kw in call.keywords:
            env2[kw.arg] = self.ev(kw.value, env)
        sub = Explorer(callee, atom_of=self.atom_of, max_states=4000, inline_depth=self.inline_depth - 1)
        try:
            outs = sub.run(callee.cfg.entry, env2)
        except AnalysisError:
            return UNKNOWN
        vals = []
        if outs and all(o.kind == "raise" for o in outs):
            names_ = set(str(o.detail) for o in outs)
            if len(names_) == 1 and all(isinstance(o.detail, str) and o.env.get("__raised__") == o.detail and not any(p.always_raises for p in o.path) for o in outs):
                # the evaluation of the callee's own statements raises that exception for this valuation, whatever path it
                # takes (a rule-supplied atom that raises, int(''), a missing key): so does the call.  (Explicit `raise`
                # statements stay undecided: an abstract method's NotImplementedError says nothing about the override.)
                raise EvalRaise(names_.pop())
        if outs and all(o.kind == "raise" for o in outs) and callee.cls is None and callee.parent is None:
            # a module-level function (nobody overrides it) that raises explicitly on every path for this valuation
            # (`if BAD_RE.search(uri): raise ValueError(..)` in a parsing helper): so does the call
            names_ = set()
            for o in outs:
                d = o.detail if isinstance(o.detail, str) else ""
                nm = d.split("(", 1)[0].strip()
                names_.add(nm if nm.replace(".", "").isidentifier() else "")
            if len(names_) == 1 and "" not in names_:
                raise EvalRaise(names_.pop())
        for o in outs:
            if o.kind != "return":
                return UNKNOWN
            d = o.detail
            if isinstance(d, str) and d.startswith("expr:"):
                return UNKNOWN
            if d == "fall-off":
                d = None
            vals.append(d)
        if not vals:
            return UNKNOWN
        first = vals[0]
        for v in vals[1:]:
            if type(v) is not type(first) or v != first:
                return UNKNOWN
        return first

    # ------------------------------------------------------ calls with effects
    TRACE = "@trace"

    SKIP = object()

    def _trace_calls(self, node, env):
        hits = []
        for root in (node.cover or [node.ast]):
            for c in ast.walk(root):
                if isinstance(c, ast.Call):
                    q = self.repo.call_target(self.func.module, self.func, c)
                    if q in self.call_trace:
                        hits.append((getattr(c, "_ord", 0), q, c))
                    elif isinstance(c.func, ast.Attribute) and ("." + c.func.attr) in self.call_trace:
                        # a method traced by its name, whatever object it is called on (`<x>.sock.setblocking(..)`)
                        hits.append((getattr(c, "_ord", 0), "." + c.func.attr, c))
        if not hits:
            return env
        env = dict(env)
        tr = env.get(self.TRACE, ())
        for _o, q, c in sorted(hits, key=lambda h: h[0]):
            try:
                v = self.call_trace[q](self, c, env)
            except Exception:
                v = UNKNOWN
            if v is self.SKIP:
                continue            # (a call of that name the rule is not interested in)
            if v is UNKNOWN and tr and tr[-1] == (q, "U"):
                continue            # (one "something unknown went there" is enough: a loop of unknown length must converge)
            tr = tr + ((q, "U" if v is UNKNOWN else v),)
        env[self.TRACE] = tr
        return env

    def _enter_call(self, node, env):
        """[(kind, env)] continuing the caller after an entered call (kind: 'return' | 'noreturn' | raised class), or None
        when the statement is not an enterable call"""
        st = node.ast
        call, target = None, None
        if isinstance(st, ast.Expr) and isinstance(st.value, ast.Call):
            call = st.value
        elif isinstance(st, ast.Assign) and len(st.targets) == 1 and isinstance(st.value, ast.Call) and isinstance(st.targets[0], (ast.Name, ast.Attribute)):
            call, target = st.value, st.targets[0]
        elif isinstance(st, ast.Return) and isinstance(st.value, ast.Call):
            call = st.value
        if call is None or self.enter_depth <= 0:
            return None
        q = self.repo.call_target(self.func.module, self.func, call)
        if (not q or not self.repo.has_func(q)) and isinstance(call.func, ast.Attribute) and HEAP in env:
            # a method of a heap object whose class the rule gave: resolved along that class's MRO
            try:
                rv0 = self.ev(call.func.value, env)
            except EvalRaise:
                rv0 = None
            if isinstance(rv0, Ref) and rv0._cls and self.repo.has_cls(rv0._cls):
                m0 = self.repo.lookup_method(rv0._cls, call.func.attr)
                q = m0.qualname if m0 is not None else q
        if not q or not self.repo.has_func(q) or not self.enter(q):
            return None
        callee = self.repo.func(q)
        if callee is self.func or any(isinstance(n, (ast.Yield, ast.YieldFrom)) for n in ast.walk(callee.node)):
            return None
        a = callee.node.args
        if a.vararg is not None or a.kwarg is not None or any(isinstance(x, ast.Starred) for x in call.args) or any(k.arg is None for k in call.keywords):
            return None
        params = [x.arg for x in a.args]
        on_self = callee.cls is not None and params and params[0] == "self" and isinstance(call.func, ast.Attribute) and isinstance(call.func.value, ast.Name) and call.func.value.id == "self"
        recv_ref = None
        if callee.cls is not None and not on_self and params and params[0] == "self" and isinstance(call.func, ast.Attribute) and HEAP in env:
            # a method called on a heap object the rule supplied (`conn.init()` with conn a Ref): the callee's `self` is that object
            try:
                rv = self.ev(call.func.value, env)
            except EvalRaise:
                rv = None
            if isinstance(rv, Ref):
                recv_ref = rv
        if callee.cls is not None and not on_self and recv_ref is None:
            return None
        names = params[1:] if (on_self or recv_ref is not None) else params
        if len(call.args) > len(names):
            return None
        env2 = {}
        for k, v in env.items():
            if k in (HEAP, self.TRACE) or (on_self and k.startswith("self.")) or (k.startswith("gunicorn.") and "." in k) or k.isupper():
                env2[k] = v
        bound = set()
        if recv_ref is not None:
            env2["self"] = recv_ref
        for nm, arg in zip(names, call.args):
            env2[nm] = self.ev(arg, env)
            bound.add(nm)
        for kw in call.keywords:
            if kw.arg not in names and kw.arg not in [x.arg for x in a.kwonlyargs]:
                return None
            env2[kw.arg] = self.ev(kw.value, env)
            bound.add(kw.arg)
        sub = Explorer(callee, atom_of=self.atom_of, tracked=[t for t in self.tracked if t.startswith("self.") or t.startswith("gunicorn.")], max_states=20000,
                       follow_implicit_exc=False, inline_depth=self.inline_depth, enter=self.enter, call_trace=self.call_trace, enter_depth=self.enter_depth - 1)
        defaults = dict(zip(names[len(names) - len(a.defaults):], a.defaults)) if a.defaults else {}
        for x, d in zip(a.kwonlyargs, a.kw_defaults):
            if d is not None:
                defaults[x.arg] = d
        for nm in list(names) + [x.arg for x in a.kwonlyargs]:
            if nm not in bound:
                if nm not in defaults:
                    return None
                env2[nm] = sub.ev(defaults[nm], {})
        try:
            outs = sub.run(callee.cfg.entry, env2)
        except AnalysisError:
            return None
        self.unknown_tests += sub.unknown_tests
        res = []
        for o in outs:
            new = dict(env)
            for k, v in o.env.items():
                if k in (HEAP, self.TRACE) or (on_self and k.startswith("self.")) or (k.startswith("gunicorn.") and "." in k):
                    if k in env or k in self.tracked or k in (HEAP, self.TRACE) or k in sub.tracked:
                        new[k] = v
            if o.kind == "return":
                if target is not None:
                    d = o.detail
                    val = None if d == "fall-off" else (UNKNOWN if (isinstance(d, str) and d.startswith("expr:")) else d)
                    tk = self.key_of(target)
                    if tk is not None:
                        new[tk] = val
                res.append(("return", new))
            elif o.kind == "raise":
                res.append((str(o.detail) if o.detail else "Exception", new))
            elif o.kind == "noreturn":
                res.append(("noreturn", new))
        return res or None

    # ------------------------------------------------------------- effects
    def apply(self, node, env):
        try:
            return self._apply(node, env)
        except EvalRaise as r:
            new = dict(env)
            new["__raise__"] = r.name
            return new

    def _apply(self, node, env):
        st = node.ast
        if node.kind != "stmt":
            return env
        if isinstance(st, ast.Return) and st.value is not None:
            # `return f(x)` whose operand raises for this valuation leaves through the statement's exception edges (an
            # enclosing try of the same function may catch it), not through the exit
            self.ev(st.value, env)
            return env
        if isinstance(st, ast.Expr) and isinstance(st.value, ast.Call):
            # the arguments of a call statement are evaluated before the call: one that raises for this valuation
            # (`os.initgroups(get_username(uid), gid)` for a uid without passwd entry) takes the statement's exception edges
            for a_ in list(st.value.args) + [k_.value for k_ in st.value.keywords]:
                if isinstance(a_, ast.Call) or any(isinstance(x_, ast.Call) for x_ in ast.walk(a_)):
                    self.ev(a_, env)
        # an element taken out of a tracked sequence inside a larger expression (`acc.append(lines.pop(0))`): take it
        # out first, then evaluate the statement with the taken value in its place
        if isinstance(st, (ast.Expr, ast.Assign, ast.AugAssign)) and not (isinstance(st, ast.Assign) and isinstance(st.value, ast.Call) and isinstance(st.value.func, ast.Attribute)
                                                                          and st.value.func.attr in ("pop", "popleft")):
            inner = [c for c in ast.walk(st) if isinstance(c, ast.Call) and isinstance(c.func, ast.Attribute) and c.func.attr in ("pop", "popleft") and not c.keywords]
            inner = [c for c in inner if isinstance(env.get(self.key_of(c.func.value) or "", None), tuple)]
            if len(inner) == 1:
                c = inner[0]
                k = self.key_of(c.func.value)
                seq = env[k]
                args = [self.ev(a, env) for a in c.args]
                idx = 0 if c.func.attr == "popleft" else (args[0] if args else -1)
                if isinstance(idx, int) and not isinstance(idx, bool) and not (c.func.attr == "popleft" and args):
                    if not seq or not (-len(seq) <= idx < len(seq)):
                        new = dict(env)
                        new["__raise__"] = "IndexError"
                        return new
                    l = list(seq)
                    taken = l.pop(idx)
                    env = dict(env)
                    env[k] = tuple(l)
                    self._subst = {id(c): taken}
                    try:
                        return self._apply_plain(node, env)
                    finally:
                        self._subst = {}
        return self._apply_plain(node, env)

    def _apply_plain(self, node, env):
        st = node.ast
        if HEAP in env and isinstance(st, ast.Assign) and len(st.targets) == 1 and isinstance(st.value, ast.Call) and isinstance(st.value.func, ast.Name) \
                and st.value.func.id == "next" and len(st.value.args) == 1:
            # `x = next(it)` on a heap iterator (attribute `queue`): the head is taken, StopIteration when exhausted
            it = self.ev(st.value.args[0], env)
            tk = self.key_of(st.targets[0])
            if isinstance(it, Ref) and isinstance(heap_get(env, it, "queue"), tuple) and tk is not None:
                q = heap_get(env, it, "queue")
                new = dict(env)
                if not q:
                    new["__raise__"] = "StopIteration"
                    return new
                h = dict(env[HEAP])
                h[(it.name, "queue")] = q[1:]
                new[HEAP] = h
                new[tk] = q[0]
                return new
        if HEAP in env and isinstance(st, ast.Assign) and any(isinstance(t, ast.Attribute) for t in st.targets):
            done = []
            new = env
            for t in st.targets:
                if isinstance(t, ast.Attribute):
                    b = self.ev(t.value, env)
                    if isinstance(b, Ref):
                        h = dict(new[HEAP])
                        h[(b.name, t.attr)] = self.ev(st.value, env)
                        new = dict(new)
                        new[HEAP] = h
                        done.append(t)
            if done and len(done) == len(st.targets):
                return new
            if done:
                env = new
        if isinstance(st, ast.Assign) and len(st.targets) == 1 and isinstance(st.targets[0], ast.Name) and isinstance(st.value, ast.Call) \
                and isinstance(st.value.func, ast.Attribute) and st.value.func.attr in ("pop", "popleft") and not st.value.keywords:
            # `x = seq.popleft()` / `seq.pop()` / `seq.pop(0)` on a tracked sequence: the element is taken out
            c = st.value
            k = self.key_of(c.func.value)
            tk = self.key_of(st.targets[0])
            if k is not None and k not in self.frozen and k in env and isinstance(env[k], tuple) and tk is not None:
                seq = env[k]
                args = [self.ev(a, env) for a in c.args]
                idx = 0 if c.func.attr == "popleft" else (args[0] if args else -1)
                new = dict(env)
                if not isinstance(idx, int) or isinstance(idx, bool) or (c.func.attr == "popleft" and args):
                    new[k] = UNKNOWN
                    new[tk] = UNKNOWN
                    return new
                if not seq or not (-len(seq) <= idx < len(seq)):
                    new["__raise__"] = "IndexError"
                    return new
                l = list(seq)
                new[tk] = l.pop(idx)
                new[k] = tuple(l)
                return new
        if isinstance(st, ast.Assign) and len(st.targets) == 1 and isinstance(st.targets[0], ast.Name) and isinstance(st.value, ast.Call) \
                and isinstance(st.value.func, ast.Attribute) and st.value.func.attr == "pop" and not st.value.keywords and 1 <= len(st.value.args) <= 2:
            # `x = d.pop(key[, default])` on a tracked dict
            c = st.value
            k = self.key_of(c.func.value)
            tk = self.key_of(st.targets[0])
            if k is not None and k not in self.frozen and k in env and isinstance(env[k], dict) and tk is not None:
                args = [self.ev(a, env) for a in c.args]
                new = dict(env)
                if args[0] is UNKNOWN or isinstance(args[0], _Refined):
                    new[k] = UNKNOWN
                    new[tk] = UNKNOWN
                    return new
                d = dict(env[k])
                try:
                    if args[0] in d:
                        new[tk] = d.pop(args[0])
                        new[k] = d
                    elif len(args) == 2:
                        new[tk] = args[1]
                    else:
                        new["__raise__"] = "KeyError"
                except TypeError:
                    new[k] = UNKNOWN
                    new[tk] = UNKNOWN
                return new
        if isinstance(st, ast.Assign) and len(st.targets) == 1 and isinstance(st.targets[0], ast.Subscript):
            # item store into a tracked dict: `kwargs["type"] = v`
            t = st.targets[0]
            k = self.key_of(t.value)
            if k is not None and k not in self.frozen and k in env and isinstance(env[k], dict):
                idx = self.ev(t.slice, env)
                new = dict(env)
                if idx is UNKNOWN or isinstance(idx, _Refined):
                    new[k] = UNKNOWN
                else:
                    d = dict(env[k])
                    try:
                        d[idx] = self.ev(st.value, env)
                        new[k] = d
                    except TypeError:
                        new[k] = UNKNOWN
                return new
        if isinstance(st, ast.Assign):
            val = None
            new = None
            for t in st.targets:
                if isinstance(t, (ast.Tuple, ast.List)) and not isinstance(st.value, (ast.Tuple, ast.List)):
                    # unpacking of a computed sequence (`a, b = entry`)
                    whole = self.ev(st.value, env)
                    pairs = list(_bind(t, whole if isinstance(whole, (tuple, list)) else UNKNOWN))
                    for tt, v in pairs:
                        k = self.key_of(tt) if not isinstance(tt, ast.Starred) else None
                        if k is not None and k not in self.frozen and (k in env or k in self.tracked):
                            if new is None:
                                new = dict(env)
                            new[k] = v
                    continue
                for (tt, vv) in _pairs(t, st.value):
                    k = self.key_of(tt)
                    if k is not None and k not in self.frozen and (k in env or k in self.tracked):
                        v = self.ev(vv, env) if vv is not None else UNKNOWN
                        if new is None:
                            new = dict(env)
                        new[k] = v
            return new if new is not None else env
        if isinstance(st, ast.Expr) and isinstance(st.value, ast.Call) and isinstance(st.value.func, ast.Attribute):
            c = st.value
            recv0 = self.ev(c.func.value, env)
            if isinstance(recv0, ByteBuf):
                kb = self.key_of(c.func.value)
                if kb is not None and kb in env and c.func.attr == "write" and len(c.args) == 1:
                    a0 = self.ev(c.args[0], env)
                    new = dict(env)
                    new[kb] = ByteBuf(recv0.content + a0) if isinstance(a0, bytes) else UNKNOWN
                    return new
                if c.func.attr in ("seek", "flush"):
                    return env
                if kb is not None and kb in env:
                    new = dict(env)
                    new[kb] = UNKNOWN
                    return new
                return env
            if isinstance(recv0, SpecObj) and callable(getattr(recv0, c.func.attr, None)) and not c.keywords:
                # a method of a specification-side stand-in (defined by the rule): run it for its recording effect
                args = [self.ev(a, env) for a in c.args]
                if not any(a is UNKNOWN for a in args):
                    try:
                        getattr(recv0, c.func.attr)(*args)
                    except Exception:
                        pass
                return env
            k = self.key_of(c.func.value)
            if k is not None and k not in self.frozen and k in env and isinstance(env[k], dict):
                # in-place change of a tracked dict
                m = c.func.attr
                new = dict(env)
                args = [self.ev(a, env) for a in c.args]
                d = dict(env[k])
                if c.keywords and m != "update":
                    new[k] = UNKNOWN if m in MUTATORS else env[k]
                elif m == "pop" and args and args[0] is not UNKNOWN:
                    try:
                        if len(args) == 1 and args[0] not in d:
                            new["__raise__"] = "KeyError"
                            return new
                        d.pop(args[0], None)
                        new[k] = d
                    except TypeError:
                        new[k] = UNKNOWN
                elif m == "update":
                    ok = True
                    for a in args:
                        if isinstance(a, dict):
                            d.update(a)
                        elif isinstance(a, (tuple, list)) and all(isinstance(x, (tuple, list)) and len(x) == 2 for x in a):
                            d.update(dict(a))
                        else:
                            ok = False
                    for kw in c.keywords:
                        if kw.arg is None:
                            ok = False
                        else:
                            d[kw.arg] = self.ev(kw.value, env)
                    new[k] = d if ok else UNKNOWN
                elif m == "setdefault" and len(args) == 2 and args[0] is not UNKNOWN:
                    d.setdefault(args[0], args[1])
                    new[k] = d
                elif m == "clear":
                    new[k] = {}
                elif m in MUTATORS:
                    new[k] = UNKNOWN
                else:
                    return env
                return new
            # in-place growth of a tracked sequence (lists are modelled as tuples): `acc.append(x)`
            if k is not None and k not in self.frozen and k in env and isinstance(env[k], tuple):
                m = c.func.attr
                cur = env[k]
                new = dict(env)
                args = [self.ev(a, env) for a in c.args]
                if c.keywords or any(a is UNKNOWN for a in args):
                    val = UNKNOWN if m in MUTATORS else cur
                elif m in ("append", "add") and len(args) == 1:
                    val = cur + (args[0],)
                elif m == "appendleft" and len(args) == 1:
                    val = (args[0],) + cur
                elif m == "extend" and len(args) == 1 and isinstance(args[0], (tuple, list)):
                    val = cur + tuple(args[0])
                elif m == "insert" and len(args) == 2 and isinstance(args[0], int):
                    l = list(cur)
                    l.insert(args[0], args[1])
                    val = tuple(l)
                elif m == "remove" and len(args) == 1:
                    l = list(cur)
                    if args[0] in l:
                        l.remove(args[0])
                        val = tuple(l)
                    else:
                        new["__raise__"] = "ValueError"
                        return new
                elif m in MUTATORS:
                    val = UNKNOWN
                else:
                    val = cur
                new[k] = val
                return new
            return env
        if isinstance(st, ast.AugAssign):
            k = self.key_of(st.target)
            if k is not None and k not in self.frozen and (k in env or k in self.tracked):
                cur = env.get(k, UNKNOWN)
                v = self.ev(st.value, env)
                new = dict(env)
                if cur is UNKNOWN or v is UNKNOWN:
                    new[k] = UNKNOWN
                else:
                    try:
                        if isinstance(st.op, ast.Add):
                            new[k] = cur + v
                        elif isinstance(st.op, ast.Sub):
                            new[k] = cur - v
                        else:
                            new[k] = UNKNOWN
                    except Exception:
                        new[k] = UNKNOWN
                return new
        return env

    # ------------------------------------------------------------- explore
    def run(self, start, env, stop=None, watch=None, start_label=None, probes=None):
        """Explore from `start` (node) with valuation env. Returns list of Outcome."""
        watch = watch or {}
        probes = probes or {}
        if self.bind_defaults and start is self.cfg.entry:
            a = self.func.node.args
            pos = [x.arg for x in a.args]
            dm = dict(zip(pos[len(pos) - len(a.defaults):], a.defaults)) if a.defaults else {}
            for x, d in zip(a.kwonlyargs, a.kw_defaults):
                if d is not None:
                    dm[x.arg] = d
            env = dict(env)
            for nm, d in dm.items():
                if nm not in env:
                    env[nm] = self.ev(d, {})
        outcomes = []
        seen = set()
        stack = [(start, dict(env), frozenset(), (), start_label)]
        states = 0
        g = self.cfg
        while stack:
            node, env, events, path, only_label = stack.pop()
            states += 1
            if states > self.max_states:
                raise AnalysisError("abstract exploration of %s exceeds %d states" % (self.func.qualname, self.max_states))
            # (an exit is reached *through* a particular return / raise statement, which decides the outcome: two ways into
            # it with equal valuations are still two outcomes)
            fk = (node.id, _freeze(env), events, only_label, path[-1].id if (path and node in (g.exit, g.raise_exit, g.noreturn)) else None)
            if fk in seen:
                continue
            seen.add(fk)
            first = not path
            path = path + (node,)
            if node.id in watch:
                events = events | {watch[node.id]}
            if node.id in probes:
                name, fn = probes[node.id]
                self.events_now = events
                try:
                    val = fn(self, env)
                except Exception:
                    val = UNKNOWN
                events = events | {(name, "U" if val is UNKNOWN else val)}
            if node is g.exit:
                ret = None
                for p in reversed(path):
                    if p.kind == "stmt" and isinstance(p.ast, ast.Return):
                        ret = p
                        break
                    if p.kind not in ("join", "with_exit", "exit"):
                        break
                detail = None
                if ret is not None and ret.ast.value is not None:
                    v = self.ev(ret.ast.value, env)
                    detail = v if v is not UNKNOWN else ("expr:" + ast.unparse(ret.ast.value))
                elif ret is None:
                    detail = "fall-off"
                outcomes.append(Outcome("return", detail, env, events, path))
                continue
            if node is g.raise_exit:
                detail = None
                for p in reversed(path):
                    if p.always_raises:
                        detail = p.raised or ast.unparse(p.ast)
                        break
                if detail is None and env.get("__raised__"):
                    detail = env["__raised__"]        # (raised by the evaluation of a statement, not by a `raise`)
                outcomes.append(Outcome("raise", detail, env, events, path))
                continue
            if node is g.noreturn:
                outcomes.append(Outcome("noreturn", None, env, events, path))
                continue
            if stop is not None and not first and stop(node):
                outcomes.append(Outcome("stop", node, env, events, path))
                continue
            if self.call_trace and node.kind in ("test", "for") and node.ast is not None:
                # (calls made by a branch condition or a loop header are calls too: `if not futures.wait(..).not_done`)
                env = self._trace_calls(node, env)
            if node.kind == "test":
                try:
                    v = self.ev(node.ast, env)
                except EvalRaise as r:
                    hs = [b for b, l in node.out if l == "exc"]
                    hh = [b for b in hs if b.kind == "handler" and (b.ast.type is None or r.name in ast.unparse(b.ast.type) or "Exception" in ast.unparse(b.ast.type))]
                    for b in (hh[:1] or hs):
                        stack.append((b, env, events, path, None))
                    continue
                if v is UNKNOWN:
                    self.unknown_tests.append(node)
                    labels = ("true", "false")
                else:
                    labels = ("true",) if v else ("false",)
                for b, l in node.out:
                    if l in labels:
                        stack.append((b, refine(self, node.ast, env, l) if v is UNKNOWN else env, events, path, None))
                    elif l == "exc" and self.follow_implicit_exc:
                        stack.append((b, env, events, path, None))
                continue
            if node.kind == "for":
                try:
                    seq = self.ev(node.ast.iter, env)
                except EvalRaise:
                    seq = UNKNOWN
                if isinstance(seq, (type({}.items()), type({}.keys()), type({}.values()))):
                    seq = tuple(seq)
                elif isinstance(seq, dict):
                    seq = tuple(seq)
                if seq is not UNKNOWN and isinstance(seq, (tuple, list)):
                    ik = "__iter__%d" % node.id
                    idx = env.get(ik, 0)
                    env2 = dict(env)
                    if idx < len(seq):
                        env2[ik] = idx + 1
                        for tt, vv in _bind(node.ast.target, seq[idx]):
                            k = self.key_of(tt)
                            if k is not None:
                                env2[k] = vv
                        lab = "true"
                    else:
                        env2.pop(ik, None)
                        lab = "false"
                    for b, l in node.out:
                        if l == lab:
                            stack.append((b, env2, events, path, None))
                    continue
                # an iteration over something unknown: the loop variables hold unknown values in the body (not what an earlier
                # loop left in them)
                env_u = dict(env)
                # (a rule that starts the exploration *at* the loop head has preset the loop variables itself)
                for tt, vv in ([] if first else _bind(node.ast.target, UNKNOWN)):
                    k = self.key_of(tt)
                    if k is not None and (k in env_u or k in self.tracked):
                        env_u[k] = UNKNOWN
                for b, l in node.out:
                    if l == "exc" and not self.follow_implicit_exc:
                        continue
                    if only_label is not None and l != only_label:
                        continue
                    stack.append((b, env_u if l == "true" else env, events, path, None))
                continue
            if self.enter is not None and node.kind == "stmt":
                succ = self._enter_call(node, env)
                if succ is not None:
                    for kind_, env_s in succ:
                        if kind_ == "return":
                            for b, l in node.out:
                                if l != "exc" and (only_label is None or l == only_label):
                                    stack.append((b, env_s, events, path, None))
                        elif kind_ == "noreturn":
                            stack.append((g.noreturn, env_s, events, path, None))
                        else:
                            targets = [b for b, l in node.out if l == "exc"]
                            short = kind_.rsplit(".", 1)[-1]
                            hs = [b for b in targets if b.kind == "handler" and (b.ast.type is None or short in ast.unparse(b.ast.type) or any(x in ast.unparse(b.ast.type) for x in ("Exception", "BaseException")))]
                            for b in (hs[:1] or targets):
                                stack.append((b, env_s, events, path, None))
                    continue
            env_untraced = env
            if self.call_trace and node.kind in ("stmt", "test", "for", "with") and node.ast is not None:
                env = self._trace_calls(node, env)
            env2 = self.apply(node, env)
            explicit_raise = node.always_raises
            if "__raise__" in env2:
                # the statement raises for this valuation (e.g. pop from an empty sequence): only its exception edges
                env2 = dict(env2)
                if self.call_trace and env is not env_untraced:
                    # (the evaluation of the statement raised -- an argument, typically: the calls it names were not made)
                    if self.TRACE in env_untraced:
                        env2[self.TRACE] = env_untraced[self.TRACE]
                    else:
                        env2.pop(self.TRACE, None)
                exc_name = env2.pop("__raise__")
                for b in self._route_exc(node, exc_name):
                    env3 = env2
                    if b.kind != "handler":
                        env3 = dict(env2)
                        env3["__raised__"] = exc_name
                    elif "__raised__" in env2:
                        env3 = dict(env2)
                        env3.pop("__raised__")
                    stack.append((b, env3, events, path, None))
                continue
            for b, l in node.out:
                if only_label is not None and l != only_label:
                    continue
                if l == "exc" and not (explicit_raise or self.follow_implicit_exc):
                    continue
                if explicit_raise and l != "exc":
                    continue
                stack.append((b, env2, events, path, None))
        return outcomes


def _pairs(target, value):
    if isinstance(target, (ast.Tuple, ast.List)):
        if isinstance(value, (ast.Tuple, ast.List)) and len(value.elts) == len(target.elts):
            for t, v in zip(target.elts, value.elts):
                yield from _pairs(t, v)
        else:
            for t in target.elts:
                yield from _pairs(t, None)
    else:
        yield target, value


def _bind(target, value):
    if isinstance(target, (ast.Tuple, ast.List)) and any(isinstance(t, ast.Starred) for t in target.elts):
        stars = [i for i, t in enumerate(target.elts) if isinstance(t, ast.Starred)]
        if len(stars) == 1 and isinstance(value, (tuple, list)) and len(value) >= len(target.elts) - 1:
            i = stars[0]
            after = len(target.elts) - i - 1
            for t, v in zip(target.elts[:i], value[:i]):
                yield from _bind(t, v)
            yield target.elts[i].value, tuple(value[i:len(value) - after])
            for t, v in zip(target.elts[i + 1:], value[len(value) - after:] if after else ()):
                yield from _bind(t, v)
        else:
            for t in target.elts:
                yield from _bind(t.value if isinstance(t, ast.Starred) else t, UNKNOWN)
        return
    if isinstance(target, (ast.Tuple, ast.List)):
        if isinstance(value, (tuple, list)) and len(value) == len(target.elts):
            for t, v in zip(target.elts, value):
                yield from _bind(t, v)
        else:
            for t in target.elts:
                yield from _bind(t, UNKNOWN)
    else:
        yield target, value


def _freeze(env):
    items = []
    for k in sorted(env):
        v = env[k]
        try:
            hash(v)
        except TypeError:
            v = repr(sorted(v.items(), key=repr)) if isinstance(v, dict) else repr(v)
        items.append((k, "U" if v is UNKNOWN else v))
    return tuple(items)
