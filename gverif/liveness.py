"""Rule liveness (thorough tier, DESIGN 4.5): every rule is run against seeded mutants of the
*current* tree (must fire, naming the rule) and against benign twins (must stay silent).

Mutants and twins are built in memory as an overlay over the working tree: nothing is written
under /repo or /verif and no scratch directory is needed.  A liveness failure is an engine
defect (exit 2), never a property verdict.
"""
import ast
import importlib
import random

from .index import Repo, AnalysisError, walk_own


class M:
    """text-located mutant: `old` must occur exactly `count` times in `path`"""

    def __init__(self, mid, path, old, new, rule=None, why="", count=1, also=()):
        self.id = mid
        self.path = path
        self.old = old
        self.new = new
        self.rule = rule
        self.why = why
        self.count = count
        self.also = also          # further (path, old, new) edits of the same mutant

    def overlay(self, repo):
        ov = {}
        for path, old, new in [(self.path, self.old, self.new)] + list(self.also):
            src = ov.get(path)
            if src is None:
                m = repo.by_relpath.get(path)
                if m is None:
                    return None
                src = m.src
            if src.count(old) != (self.count if path == self.path and old == self.old else 1):
                return None
            src = src.replace(old, new)
            try:
                compile(src, path, "exec", dont_inherit=True)
            except SyntaxError:
                return None
            ov[path] = src
        return ov


class _Stored:
    """a stored patch as a mutant (overlay precomputed)"""
    rule = None
    why = "seeded breaking change"

    def __init__(self, mid, ov):
        self.id = mid
        self._ov = ov

    def overlay(self, repo):
        return self._ov


class T(M):
    """benign twin expressed as a text edit (must stay silent)"""


# ------------------------------------------------------------------------ generic twins
def twin_unparse(repo):
    """reformat everything: ast.unparse round trip (comments dropped, quotes/parentheses normalised)"""
    return {m.relpath: ast.unparse(ast.parse(m.src)) + "\n" for m in repo.modules.values()}


class _Renamer(ast.NodeTransformer):
    def __init__(self, mapping):
        self.mapping = mapping

    def visit_Name(self, node):
        if node.id in self.mapping:
            return ast.copy_location(ast.Name(id=self.mapping[node.id], ctx=node.ctx), node)
        return node

    def visit_ExceptHandler(self, node):
        self.generic_visit(node)
        if node.name in self.mapping:
            node.name = self.mapping[node.name]
        return node


def twin_rename_locals(repo, suffix="_rn"):
    """rename every local variable (not parameters) of every function"""
    out = {}
    for m in repo.modules.values():
        tree = ast.parse(m.src)
        for fn in [n for n in ast.walk(tree) if isinstance(n, (ast.FunctionDef, ast.AsyncFunctionDef))]:
            params = set(a.arg for a in fn.args.posonlyargs + fn.args.args + fn.args.kwonlyargs)
            if fn.args.vararg:
                params.add(fn.args.vararg.arg)
            if fn.args.kwarg:
                params.add(fn.args.kwarg.arg)
            skip = set(params)
            stores = set()
            for n in walk_own(fn):
                if isinstance(n, (ast.Global, ast.Nonlocal)):
                    skip |= set(n.names)
                elif isinstance(n, (ast.Import, ast.ImportFrom)):
                    skip |= set((a.asname or a.name).split(".")[0] for a in n.names)
                elif isinstance(n, (ast.FunctionDef, ast.AsyncFunctionDef, ast.ClassDef)):
                    skip.add(n.name)
                    for sub in ast.walk(n):
                        if isinstance(sub, ast.arg):
                            skip.add(sub.arg)
                        if isinstance(sub, (ast.Global, ast.Nonlocal)):
                            skip |= set(sub.names)
                elif isinstance(n, ast.Name) and isinstance(n.ctx, (ast.Store, ast.Del)):
                    stores.add(n.id)
                elif isinstance(n, ast.ExceptHandler) and n.name:
                    stores.add(n.name)
            # names already renamed by an enclosing function pass keep their new name
            mapping = {s: s + suffix for s in stores - skip if not s.endswith(suffix) and not s.startswith("__")}
            if mapping:
                _Renamer(mapping).visit(fn)
        src = ast.unparse(ast.fix_missing_locations(tree)) + "\n"
        try:
            compile(src, m.relpath, "exec", dont_inherit=True)
        except SyntaxError:
            continue
        out[m.relpath] = src
    return out


class _AddLog(ast.NodeTransformer):
    """insert a harmless statement at the top of every function body and after every `if`"""

    def visit_FunctionDef(self, node):
        self.generic_visit(node)
        stmt = ast.parse("_verif_twin_marker = None").body[0]
        i = 1 if node.body and isinstance(node.body[0], ast.Expr) and isinstance(node.body[0].value, ast.Constant) else 0
        node.body.insert(i, stmt)
        return node


def twin_add_statements(repo):
    out = {}
    for m in repo.modules.values():
        tree = _AddLog().visit(ast.parse(m.src))
        out[m.relpath] = ast.unparse(ast.fix_missing_locations(tree)) + "\n"
    return out


class _InvertIfs(ast.NodeTransformer):
    """`if c: A else: B`  ->  `if not c: B else: A` (only plain two-armed ifs, no elif chains)"""

    def visit_If(self, node):
        self.generic_visit(node)
        if node.orelse and not (len(node.orelse) == 1 and isinstance(node.orelse[0], ast.If)) and \
                not (len(node.body) == 1 and isinstance(node.body[0], ast.If)):
            t = node.test
            if isinstance(t, ast.UnaryOp) and isinstance(t.op, ast.Not):
                nt = t.operand
            else:
                nt = ast.UnaryOp(op=ast.Not(), operand=t)
            return ast.copy_location(ast.If(test=nt, body=node.orelse, orelse=node.body), node)
        return node


def twin_invert_ifs(repo):
    out = {}
    for m in repo.modules.values():
        tree = _InvertIfs().visit(ast.parse(m.src))
        out[m.relpath] = ast.unparse(ast.fix_missing_locations(tree)) + "\n"
    return out


_FLIP = {ast.Lt: ast.Gt, ast.Gt: ast.Lt, ast.LtE: ast.GtE, ast.GtE: ast.LtE, ast.Eq: ast.Eq, ast.NotEq: ast.NotEq}


class _FlipCompares(ast.NodeTransformer):
    """`a < b` -> `b > a` when both operands are names / attributes / constants (pure)"""

    def visit_Compare(self, node):
        self.generic_visit(node)
        pure = (ast.Name, ast.Attribute, ast.Constant, ast.Tuple)
        if len(node.ops) == 1 and type(node.ops[0]) in _FLIP and isinstance(node.left, pure) and isinstance(node.comparators[0], pure) \
                and isinstance(node.left, ast.Constant) != isinstance(node.comparators[0], ast.Constant) and isinstance(node.comparators[0], (ast.Constant, ast.Tuple)):
            return ast.copy_location(ast.Compare(left=node.comparators[0], ops=[_FLIP[type(node.ops[0])]()], comparators=[node.left]), node)
        return node


def twin_flip_compares(repo):
    """Yoda conditions: `x == 0` -> `0 == x`, `v < (1, 1)` -> `(1, 1) > v`"""
    out = {}
    for m in repo.modules.values():
        tree = _FlipCompares().visit(ast.parse(m.src))
        out[m.relpath] = ast.unparse(ast.fix_missing_locations(tree)) + "\n"
    return out


GENERIC_TWINS = [("unparse-roundtrip", twin_unparse), ("rename-locals", twin_rename_locals), ("add-statements", twin_add_statements),
                 ("invert-ifs", twin_invert_ifs), ("yoda-compares", twin_flip_compares)]


# ------------------------------------------------------------------------------ runner
def _eval_overlay(job):
    """worker: run one property on one overlay -> (status, [violation dicts], error)"""
    prop, root, ov, seed = job
    from .cli import run_property
    try:
        r2 = Repo(root, overlay=ov)
        st, lines, c2, err = run_property(prop, r2, "quick", seed, write=False)
        return st, [{"rule": v["rule"], "key": v["key"], "site": v["site"], "detail": v["detail"]} for v in c2.violations], err
    except AnalysisError as e:
        return 2, [], str(e)
    except Exception as e:          # pragma: no cover
        return 2, [], "internal error %s: %s" % (type(e).__name__, e)


def _map(jobs):
    import multiprocessing
    import os
    n = min(len(jobs), int(os.environ.get("GVERIF_JOBS", "0")) or (os.cpu_count() or 1), 16)
    if n <= 1 or len(jobs) <= 2:
        return [_eval_overlay(j) for j in jobs]
    try:
        ctx = multiprocessing.get_context("fork")
        with ctx.Pool(n) as pool:
            return pool.map(_eval_overlay, jobs, chunksize=1)
    except Exception:
        return [_eval_overlay(j) for j in jobs]


def run(prop, repo, seed=0, verbose=False):
    from .cli import run_property
    try:
        mm = importlib.import_module("gverif.mutants.%s" % prop.lower())
    except ModuleNotFoundError:
        return {"mutants": 0, "killed": 0, "skipped": 0, "twins": 0, "twins_silent": 0, "failures": [], "detail": []}
    base_status, _, base_ctx, base_err = run_property(prop, repo, "quick", seed, write=False)
    base_keys = set(v["key"] for v in base_ctx.violations) | set(rec["key"] for _, rec in base_ctx.known_hits)
    res = {"mutants": 0, "killed": 0, "skipped": 0, "twins": 0, "twins_silent": 0, "failures": [], "detail": []}
    mutants = list(getattr(mm, "MUTANTS", []))
    overlays = [mu.overlay(repo) for mu in mutants]
    twins = [(n, fn(repo)) for n, fn in GENERIC_TWINS]
    for tw in getattr(mm, "TWINS", []):
        twins.append((tw.id, tw.overlay(repo)))
    # stored corpora: behaviour-preserving refactorings must stay silent, seeded breaking changes of this property
    # must be reported (both written by independent sub-agents; see gverif.seeded)
    from . import seeded as _sd
    import json as _json
    import os as _os
    for sid, d in _sd.corpus("benign"):
        twins.append(("benign/" + sid, _sd.overlay_of(repo, d)))
    for sid, d in _sd.corpus("seeded"):
        try:
            meta = _json.load(open(_os.path.join(d, "meta.json")))
        except Exception:
            continue
        if prop in (meta.get("properties") or [meta.get("property")]):
            mutants.append(_Stored("seeded/" + sid, _sd.overlay_of(repo, d)))
    overlays = [mu.overlay(repo) for mu in mutants]
    jobs = [(prop, repo.root, ov, seed) for ov in overlays if ov is not None] + [(prop, repo.root, ov, seed) for _, ov in twins if ov is not None]
    results = _map(jobs)
    it = iter(results)
    for mu, ov in zip(mutants, overlays):
        res["mutants"] += 1
        if ov is None:
            res["skipped"] += 1
            res["detail"].append({"mutant": mu.id, "verdict": "skipped (anchor text changed)"})
            if verbose:
                print("   skip %s" % mu.id)
            continue
        st, vio, err = next(it)
        new = [v for v in vio if v["key"] not in base_keys]
        hit = [v for v in new if mu.rule is None or v["rule"] == mu.rule]
        if st in (1, 2) and hit:
            res["killed"] += 1
            res["detail"].append({"mutant": mu.id, "verdict": "killed", "by": sorted(set(v["rule"] for v in new)), "site": hit[0]["site"]})
            if verbose:
                print("   kill %s by %s" % (mu.id, sorted(set(v["rule"] for v in new))))
        elif st == 2 and err and mu.rule is None:
            res["killed"] += 1
            res["detail"].append({"mutant": mu.id, "verdict": "fail-closed", "error": err[:200]})
        else:
            res["failures"].append("mutant %s (%s) not reported by %s [status %s, new violations: %s%s]" % (
                mu.id, mu.why, mu.rule or prop, st, sorted(set(v["rule"] for v in new)), (", error: " + err[:160]) if err else ""))
            res["detail"].append({"mutant": mu.id, "verdict": "MISSED"})
            if verbose:
                print("   MISS %s" % mu.id)
    base_rf = set(tuple(k.split("|")[:2]) for k in base_keys)
    for name, ov in twins:
        if ov is None:
            res["detail"].append({"twin": name, "verdict": "skipped (anchor text changed)"})
            continue
        res["twins"] += 1
        st, vio, err = next(it)
        new = [v for v in vio if tuple(v["key"].split("|")[:2]) not in base_rf]
        if err is None and not new:
            res["twins_silent"] += 1
            res["detail"].append({"twin": name, "verdict": "silent"})
        else:
            res["failures"].append("benign twin %s raises an alarm: %s" % (name, err or [v["key"] for v in new][:3]))
            res["detail"].append({"twin": name, "verdict": "ALARM"})
            if verbose:
                print("   TWIN-ALARM %s: %s" % (name, err or [(v["key"], v["detail"][:80]) for v in new][:3]))
    return res
