"""The one table of frozen repository names (DESIGN 3.5 / Appendix C).  Everything else a
rule looks at is *discovered* from these entry points.  `gverif selfcheck` verifies them."""

FUNCS = """
gunicorn.http.message.Message.__init__ gunicorn.http.message.Message.parse_headers gunicorn.http.message.Message.set_body_reader
gunicorn.http.message.Message.should_close gunicorn.http.message.Request.__init__ gunicorn.http.message.Request.parse
gunicorn.http.message.Request.read_line gunicorn.http.message.Request.get_data gunicorn.http.message.Request.proxy_protocol
gunicorn.http.message.Request.proxy_protocol_access_check gunicorn.http.message.Request.parse_proxy_protocol
gunicorn.http.message.Request.parse_request_line gunicorn.http.message.Request.set_body_reader
gunicorn.http.body.ChunkedReader.read gunicorn.http.body.ChunkedReader.parse_trailers gunicorn.http.body.ChunkedReader.parse_chunked
gunicorn.http.body.ChunkedReader.parse_chunk_size gunicorn.http.body.ChunkedReader.get_data gunicorn.http.body.LengthReader.read
gunicorn.http.body.LengthReader.__init__ gunicorn.http.body.EOFReader.read gunicorn.http.body.Body.read gunicorn.http.body.Body.readline gunicorn.http.body.Body.readlines
gunicorn.http.unreader.Unreader.read gunicorn.http.unreader.Unreader.unread gunicorn.http.unreader.SocketUnreader.chunk gunicorn.http.unreader.IterUnreader.chunk
gunicorn.http.parser.Parser.__next__
gunicorn.http.wsgi.create gunicorn.http.wsgi.default_environ gunicorn.http.wsgi.proxy_environ
gunicorn.http.wsgi.Response.__init__ gunicorn.http.wsgi.Response.should_close gunicorn.http.wsgi.Response.start_response
gunicorn.http.wsgi.Response.process_headers gunicorn.http.wsgi.Response.is_chunked gunicorn.http.wsgi.Response.default_headers
gunicorn.http.wsgi.Response.send_headers gunicorn.http.wsgi.Response.write gunicorn.http.wsgi.Response.sendfile
gunicorn.http.wsgi.Response.write_file gunicorn.http.wsgi.Response.close
gunicorn.util.write_chunk gunicorn.util.write gunicorn.util.write_nonblock gunicorn.util.write_error gunicorn.util.is_hoppish
gunicorn.util.set_owner_process gunicorn.util.chown gunicorn.util.unlink gunicorn.util.split_request_uri gunicorn.util.unquote_to_wsgi_str
gunicorn.util.bytes_to_str gunicorn.util.to_bytestring gunicorn.util.close_on_exec gunicorn.util.daemonize
gunicorn.workers.base.Worker.__init__ gunicorn.workers.base.Worker.notify gunicorn.workers.base.Worker.init_process
gunicorn.workers.base.Worker.load_wsgi gunicorn.workers.base.Worker.init_signals gunicorn.workers.base.Worker.handle_exit
gunicorn.workers.base.Worker.handle_quit gunicorn.workers.base.Worker.handle_abort gunicorn.workers.base.Worker.handle_error
gunicorn.workers.sync.SyncWorker.accept gunicorn.workers.sync.SyncWorker.wait gunicorn.workers.sync.SyncWorker.run_for_one
gunicorn.workers.sync.SyncWorker.run_for_multiple gunicorn.workers.sync.SyncWorker.run gunicorn.workers.sync.SyncWorker.handle
gunicorn.workers.sync.SyncWorker.handle_request
gunicorn.workers.base_async.AsyncWorker.handle gunicorn.workers.base_async.AsyncWorker.handle_request
gunicorn.workers.gthread.TConn.__init__ gunicorn.workers.gthread.TConn.init gunicorn.workers.gthread.TConn.set_timeout gunicorn.workers.gthread.TConn.close
gunicorn.workers.gthread.ThreadWorker.__init__ gunicorn.workers.gthread.ThreadWorker.init_process gunicorn.workers.gthread.ThreadWorker.enqueue_req
gunicorn.workers.gthread.ThreadWorker._wrap_future gunicorn.workers.gthread.ThreadWorker.accept gunicorn.workers.gthread.ThreadWorker.on_client_socket_readable
gunicorn.workers.gthread.ThreadWorker.murder_keepalived gunicorn.workers.gthread.ThreadWorker.run gunicorn.workers.gthread.ThreadWorker.finish_request
gunicorn.workers.gthread.ThreadWorker.handle gunicorn.workers.gthread.ThreadWorker.handle_request
gunicorn.workers.ggevent.GeventWorker.notify gunicorn.workers.ggevent.GeventWorker.run gunicorn.workers.ggevent.GeventWorker.init_process
gunicorn.workers.geventlet.EventletWorker.run gunicorn.workers.geventlet.EventletWorker.init_process
gunicorn.workers.workertmp.WorkerTmp.__init__ gunicorn.workers.workertmp.WorkerTmp.notify gunicorn.workers.workertmp.WorkerTmp.last_update gunicorn.workers.workertmp.WorkerTmp.close
gunicorn.arbiter.Arbiter.setup gunicorn.arbiter.Arbiter.start gunicorn.arbiter.Arbiter.init_signals gunicorn.arbiter.Arbiter.signal gunicorn.arbiter.Arbiter.run
gunicorn.arbiter.Arbiter.handle_chld gunicorn.arbiter.Arbiter.handle_hup gunicorn.arbiter.Arbiter.handle_term gunicorn.arbiter.Arbiter.handle_int
gunicorn.arbiter.Arbiter.handle_quit gunicorn.arbiter.Arbiter.handle_ttin gunicorn.arbiter.Arbiter.handle_ttou gunicorn.arbiter.Arbiter.handle_usr2
gunicorn.arbiter.Arbiter.maybe_promote_master gunicorn.arbiter.Arbiter.halt gunicorn.arbiter.Arbiter.sleep gunicorn.arbiter.Arbiter.stop
gunicorn.arbiter.Arbiter.reexec gunicorn.arbiter.Arbiter.reload gunicorn.arbiter.Arbiter.murder_workers gunicorn.arbiter.Arbiter.reap_workers
gunicorn.arbiter.Arbiter.manage_workers gunicorn.arbiter.Arbiter.spawn_worker gunicorn.arbiter.Arbiter.spawn_workers gunicorn.arbiter.Arbiter.kill_workers
gunicorn.arbiter.Arbiter.kill_worker
gunicorn.pidfile.Pidfile.create gunicorn.pidfile.Pidfile.rename gunicorn.pidfile.Pidfile.unlink gunicorn.pidfile.Pidfile.validate
gunicorn.sock.BaseSocket.__init__ gunicorn.sock.BaseSocket.set_options gunicorn.sock.BaseSocket.close gunicorn.sock.UnixSocket.__init__ gunicorn.sock.UnixSocket.bind
gunicorn.sock.create_sockets gunicorn.sock.close_sockets gunicorn.systemd.listen_fds
gunicorn.config.Config.set gunicorn.config.Config.parser gunicorn.config.Config.get_cmd_args_from_env gunicorn.config.Setting.add_option gunicorn.config.Setting.set
gunicorn.config.SettingMeta.__new__ gunicorn.config.validate_user gunicorn.config.validate_group
gunicorn.app.base.BaseApplication.do_load_config gunicorn.app.base.BaseApplication.load_default_config gunicorn.app.base.BaseApplication.reload
gunicorn.app.base.Application.load_config gunicorn.app.base.Application.load_config_from_module_name_or_filename gunicorn.app.base.Application.get_config_from_filename
gunicorn.glogging.SafeAtoms.__init__ gunicorn.glogging.Logger.atoms gunicorn.glogging.Logger.access gunicorn.glogging.Logger._get_user
gunicorn.instrument.statsd.Statsd.access
""".split()

CLASSES = """
gunicorn.http.message.Message gunicorn.http.message.Request gunicorn.http.body.ChunkedReader gunicorn.http.body.LengthReader gunicorn.http.body.EOFReader
gunicorn.http.body.Body gunicorn.http.parser.Parser gunicorn.http.parser.RequestParser gunicorn.http.wsgi.Response gunicorn.http.errors.ParseException
gunicorn.workers.base.Worker gunicorn.workers.sync.SyncWorker gunicorn.workers.base_async.AsyncWorker gunicorn.workers.gthread.ThreadWorker gunicorn.workers.gthread.TConn
gunicorn.arbiter.Arbiter gunicorn.pidfile.Pidfile gunicorn.sock.BaseSocket gunicorn.sock.UnixSocket gunicorn.config.Config gunicorn.config.Setting
gunicorn.glogging.Logger gunicorn.glogging.SafeAtoms
""".split()

CONSTS = """
gunicorn.http.message.TOKEN_RE gunicorn.http.message.VERSION_RE gunicorn.http.message.METHOD_BADCHAR_RE gunicorn.http.message.RFC9110_5_5_INVALID_AND_DANGEROUS
gunicorn.http.message.MAX_REQUEST_LINE gunicorn.http.message.MAX_HEADERS gunicorn.http.message.DEFAULT_MAX_HEADERFIELD_SIZE
gunicorn.http.wsgi.HEADER_VALUE_RE gunicorn.util.hop_headers gunicorn.arbiter.Arbiter.SIGNALS gunicorn.arbiter.Arbiter.WORKER_BOOT_ERROR gunicorn.arbiter.Arbiter.APP_LOAD_ERROR
""".split()


def verify(repo):
    """anchors missing from the tree.  Small helpers that the normal form folds into their callers
    (inline.ALWAYS_EXPAND) are not anchors: no rule names them any more."""
    from .inline import ALWAYS_EXPAND
    missing = []
    for q in FUNCS:
        if q in ALWAYS_EXPAND:
            continue
        if not repo.has_func(q):
            missing.append(q)
    for q in CLASSES:
        if not repo.has_cls(q):
            missing.append(q)
    for q in CONSTS:
        try:
            repo.const_expr(q)
        except Exception:
            missing.append(q)
    return missing


def count():
    return len(FUNCS) + len(CLASSES) + len(CONSTS)
