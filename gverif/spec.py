"""Specification tables (the oracle side of K4/K7 rules).

Written from RFC 9110 / RFC 9112 / PEP 3333 / gunicorn's documentation and the property
statements -- never derived from the code under analysis.
"""
import string

# RFC 9110 5.6.2
TCHAR = frozenset(ord(c) for c in "!#$%&'*+-.^_`|~" + string.digits + string.ascii_letters)
# RFC 9110 5.5: field-content = field-vchar / SP / HTAB ; field-vchar = VCHAR / obs-text
FIELD_VALUE_CHARS = frozenset([0x09, 0x20]) | frozenset(range(0x21, 0x7f)) | frozenset(range(0x80, 0x100))
FORBIDDEN_IN_HEAD = frozenset([0x00, 0x0d, 0x0a])
HEXDIG = frozenset(ord(c) for c in string.hexdigits)
DIGIT = frozenset(ord(c) for c in string.digits)
OWS = frozenset([0x20, 0x09])

# PEP 3333 "Other HTTP features" / RFC 9110 7.6.1
HOP_BY_HOP = frozenset(["connection", "keep-alive", "proxy-authenticate", "proxy-authorization",
                        "te", "trailers", "transfer-encoding", "upgrade"])

# A.1 transfer codings
TE_KNOWN_NON_FINAL = ("identity", "compress", "deflate", "gzip")

# A.8 limits
MAX_REQUEST_LINE = 8190
MAX_HEADERS = 32768
DEFAULT_MAX_HEADERFIELD_SIZE = 8190

# A.11 environment hand-off of the binary upgrade
UPGRADE_ENV = {
    "GUNICORN_PID": "old master pid, read by the new master in Arbiter.start/setup",
    "GUNICORN_FD": "comma separated listener fds, read in Arbiter.start and util.daemonize",
    "LISTEN_PID": "systemd style pid, read by systemd.listen_fds",
    "LISTEN_FDS": "systemd style fd count, read by systemd.listen_fds",
}

# master signals that must each have a handler (gunicorn docs/source/signals.rst)
MASTER_SIGNALS = ["HUP", "QUIT", "INT", "TERM", "TTIN", "TTOU", "USR1", "USR2", "WINCH"]

# relaxations that must be opt-in (default = safe value)
UNSAFE_SWITCHES = {
    "strip_header_spaces": False,
    "permit_obsolete_folding": False,
    "permit_unconventional_http_method": False,
    "permit_unconventional_http_version": False,
    "casefold_http_method": False,
    "header_map": "drop",          # 'drop' and 'refuse' are safe; 'dangerous' is not
}
HEADER_MAP_SAFE = ("drop", "refuse")

# documented merge authority, low -> high (docs/source/configure.rst)
CONFIG_AUTHORITY = ["framework", "file", "env", "cli"]

# primitives more lenient than the protocol (A.14)
LENIENT_NOARG_STRIP = ("strip", "lstrip", "rstrip", "split", "rsplit")
