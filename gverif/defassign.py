"""A11/K12: definite assignment of locals in one function, path-sensitive for the boolean /
constant tests the finite evaluator can decide (so `except KeyError: flag = False ... if flag: use(x)`
is not a false alarm).  Exception edges are followed: an assignment inside `try` may not have
happened when its handler runs."""
import ast

from .absint import Explorer, UNKNOWN
from .index import walk_own


def _bound_in_comprehension(f, name_node):
    for a in f.module.ancestors(name_node):
        if isinstance(a, (ast.ListComp, ast.SetComp, ast.DictComp, ast.GeneratorExp)):
            for g in a.generators:
                if any(isinstance(x, ast.Name) and x.id == name_node.id for x in ast.walk(g.target)):
                    return True
        if isinstance(a, (ast.FunctionDef, ast.AsyncFunctionDef, ast.Lambda)):
            break
    return False


def possibly_unbound(f, only=None):
    """[(name, use CFG node, witness path text)]"""
    g = f.cfg
    params = set(f.params)
    local = set(n for n in f.locals if n not in params)
    if only:
        local &= set(only)
    binders = {}
    for n in g.nodes:
        names = set()
        if n.kind == "stmt" and isinstance(n.ast, (ast.Assign, ast.AnnAssign)):
            tg = n.ast.targets if isinstance(n.ast, ast.Assign) else [n.ast.target]
            for t in tg:
                names |= set(x.id for x in ast.walk(t) if isinstance(x, ast.Name) and isinstance(x.ctx, ast.Store))
        elif n.kind == "stmt" and isinstance(n.ast, ast.AugAssign) and isinstance(n.ast.target, ast.Name):
            names.add(n.ast.target.id)
        elif n.kind == "for":
            names |= set(x.id for x in ast.walk(n.ast.target) if isinstance(x, ast.Name))
        elif n.kind == "with":
            for it in n.ast.items:
                if it.optional_vars is not None:
                    names |= set(x.id for x in ast.walk(it.optional_vars) if isinstance(x, ast.Name))
        elif n.kind == "handler" and n.ast.name:
            names.add(n.ast.name)
        elif n.kind == "stmt" and isinstance(n.ast, (ast.Import, ast.ImportFrom)):
            names |= set((a.asname or a.name).split(".")[0] for a in n.ast.names)
        elif n.kind == "stmt" and isinstance(n.ast, (ast.FunctionDef, ast.AsyncFunctionDef, ast.ClassDef)):
            names.add(n.ast.name)
        for nm in names & local:
            binders.setdefault(nm, set()).add(n.id)
    uses = {}
    for n in g.nodes:
        for root in n.cover:
            for x in ast.walk(root):
                if isinstance(x, ast.Name) and isinstance(x.ctx, ast.Load) and x.id in local and not _bound_in_comprehension(f, x):
                    uses.setdefault(n.id, set()).add(x.id)
        if n.kind == "stmt" and isinstance(n.ast, ast.AugAssign) and isinstance(n.ast.target, ast.Name) and n.ast.target.id in local:
            uses.setdefault(n.id, set()).add(n.ast.target.id)
    if not uses:
        return []
    watch = {}
    for nm, ids in binders.items():
        for i in ids:
            watch.setdefault(i, []).append(nm)
    found = {}

    def make_probe(nid):
        def probe(ex, env):
            ev = ex.events_now
            for nm in uses[nid]:
                if ("bind", nm) not in ev:
                    found.setdefault((nm, nid), True)
            return None
        return probe
    ex = Explorer(f, follow_implicit_exc=True, max_states=200000)
    # binding events are recorded *after* the node executed: emulate by watching the successors
    # -> simpler: record bind events at the binder node itself but evaluate uses first
    probes = {nid: ("use", make_probe(nid)) for nid in uses}
    _run(ex, g, watch, probes)
    out = []
    for (nm, nid) in sorted(found):
        node = g.nodes[nid]
        p = g.path(g.entry, [node], without_nodes=[g.nodes[i] for i in binders.get(nm, ())], follow_exc=True)
        out.append((nm, node, g.fmt_path(p) if p else ""))
    return out


def _run(ex, g, watch, probes):
    """exploration that carries the set of bound names as events"""
    seen = set()
    stack = [(g.entry, {}, frozenset())]
    states = 0
    from .absint import _freeze
    while stack:
        node, env, events = stack.pop()
        states += 1
        if states > ex.max_states:
            from .index import AnalysisError
            raise AnalysisError("definite-assignment exploration of %s too large" % ex.func.qualname)
        fk = (node.id, _freeze(env), events)
        if fk in seen:
            continue
        seen.add(fk)
        if node.id in probes:
            ex.events_now = events
            probes[node.id][1](ex, env)
        if node in (g.exit, g.raise_exit, g.noreturn):
            continue
        bound_after = events | frozenset(("bind", nm) for nm in watch.get(node.id, ()))
        if node.kind == "test":
            v = ex.ev(node.ast, env)
            labels = ("true", "false") if v is UNKNOWN else (("true",) if v else ("false",))
            from .absint import refine
            for b, l in node.out:
                if l in labels:
                    stack.append((b, refine(ex, node.ast, env, l) if v is UNKNOWN else env, events))
                elif l == "exc":
                    stack.append((b, env, events))
            continue
        env2 = ex.apply(node, env)
        for b, l in node.out:
            if node.always_raises and l not in ("exc",):
                continue
            if l == "exc":
                # the statement raised: its own binding did not happen
                stack.append((b, env, events))
            else:
                stack.append((b, env2, bound_after))
