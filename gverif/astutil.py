"""Small AST helpers shared by the rules."""
import ast


def dotted(e):
    parts = []
    while isinstance(e, ast.Attribute):
        parts.append(e.attr)
        e = e.value
    if isinstance(e, ast.Name):
        parts.append(e.id)
        return ".".join(reversed(parts))
    return None


def norm(node):
    """whitespace/quote-normalised source of a node (identity key for reports)"""
    try:
        return " ".join(ast.unparse(node).split())
    except Exception:
        return type(node).__name__


def calls_in(node):
    return [n for n in ast.walk(node) if isinstance(n, ast.Call)]


def own_walk(fnode):
    from .index import walk_own
    return walk_own(fnode)


def const(e, default=None):
    if isinstance(e, ast.Constant):
        return e.value
    if isinstance(e, ast.UnaryOp) and isinstance(e.op, ast.USub) and isinstance(e.operand, ast.Constant):
        return -e.operand.value
    if isinstance(e, ast.Tuple):
        vals = [const(x, _NO) for x in e.elts]
        if _NO in vals:
            return default
        return tuple(vals)
    if isinstance(e, ast.List):
        vals = [const(x, _NO) for x in e.elts]
        if _NO in vals:
            return default
        return list(vals)
    return default


class _No:
    def __repr__(self):
        return "<no-const>"


_NO = _No()
NO = _NO


def is_const(e):
    return const(e, _NO) is not _NO


def names(e):
    return set(n.id for n in ast.walk(e) if isinstance(n, ast.Name))


def attr_tails(e):
    """set of attribute names and plain names mentioned in expression"""
    out = set()
    for n in ast.walk(e):
        if isinstance(n, ast.Attribute):
            out.add(n.attr)
        elif isinstance(n, ast.Name):
            out.add(n.id)
    return out


def tail(e):
    """last component of a Name/Attribute chain"""
    if isinstance(e, ast.Attribute):
        return e.attr
    if isinstance(e, ast.Name):
        return e.id
    return None


def compare(e):
    """(left, op-class, right) for a single-operator Compare else None.
    Normalised so that a constant operand is on the right (`0 == x` is read as `x == 0`,
    `(1, 1) > v` as `v < (1, 1)`): recognisers do not depend on operand order."""
    if isinstance(e, ast.Compare) and len(e.ops) == 1:
        l, op, r = e.left, type(e.ops[0]), e.comparators[0]
        if op in FLIP and is_const(l) and not is_const(r):
            return r, FLIP[op], l
        return l, op, r
    return None


FLIP = {ast.Lt: ast.Gt, ast.Gt: ast.Lt, ast.LtE: ast.GtE, ast.GtE: ast.LtE, ast.Eq: ast.Eq, ast.NotEq: ast.NotEq}
NEG = {ast.Lt: ast.GtE, ast.Gt: ast.LtE, ast.LtE: ast.Gt, ast.GtE: ast.Lt, ast.Eq: ast.NotEq, ast.NotEq: ast.Eq,
       ast.Is: ast.IsNot, ast.IsNot: ast.Is, ast.In: ast.NotIn, ast.NotIn: ast.In}
OPSYM = {ast.Lt: "<", ast.Gt: ">", ast.LtE: "<=", ast.GtE: ">=", ast.Eq: "==", ast.NotEq: "!=", ast.Is: "is",
         ast.IsNot: "is not", ast.In: "in", ast.NotIn: "not in"}


def method_call(e, name=None):
    """(receiver expr, method name, Call) if e is `recv.method(...)`"""
    if isinstance(e, ast.Call) and isinstance(e.func, ast.Attribute):
        if name is None or e.func.attr == name or (isinstance(name, (tuple, set, list)) and e.func.attr in name):
            return e.func.value, e.func.attr, e
    return None


def stores_in(fnode):
    """[(target expr, value expr or None, stmt)] for assignments in a function (own body)"""
    out = []
    for n in own_walk(fnode):
        if isinstance(n, ast.Assign):
            for t in n.targets:
                out.append((t, n.value, n))
        elif isinstance(n, ast.AugAssign):
            out.append((n.target, n.value, n))
        elif isinstance(n, ast.AnnAssign) and n.value is not None:
            out.append((n.target, n.value, n))
    return out


def flat_targets(t):
    if isinstance(t, (ast.Tuple, ast.List)):
        for x in t.elts:
            yield from flat_targets(x)
    elif isinstance(t, ast.Starred):
        yield from flat_targets(t.value)
    else:
        yield t


def body_always_raises(stmts):
    """last statement of a block is raise (syntactic, used only for quick classification)"""
    return bool(stmts) and isinstance(stmts[-1], ast.Raise)
