"""Small AST helpers shared by the rules."""
import ast


def dotted(e):
    parts = []
    while isinstance(e, ast.Attribute):
        parts.append(e.attr)
        e = e.value
    if isinstance(e, ast.Name):
        parts.append(e.id)
        return ".".join(reversed(parts))
    return None


def norm(node):
    """whitespace/quote-normalised source of a node (identity key for reports)"""
    try:
        return " ".join(ast.unparse(node).split())
    except Exception:
        return type(node).__name__


def calls_in(node):
    return [n for n in ast.walk(node) if isinstance(n, ast.Call)]


def own_walk(fnode):
    from .index import walk_own
    return walk_own(fnode)


def const(e, default=None):
    if isinstance(e, ast.Constant):
        return e.value
    if isinstance(e, ast.UnaryOp) and isinstance(e.op, ast.USub) and isinstance(e.operand, ast.Constant):
        return -e.operand.value
    if isinstance(e, ast.Tuple):
        vals = [const(x, _NO) for x in e.elts]
        if _NO in vals:
            return default
        return tuple(vals)
    if isinstance(e, ast.List):
        vals = [const(x, _NO) for x in e.elts]
        if _NO in vals:
            return default
        return list(vals)
    return default


class _No:
    def __repr__(self):
        return "<no-const>"


_NO = _No()
NO = _NO


def is_const(e):
    return const(e, _NO) is not _NO


def names(e):
    return set(n.id for n in ast.walk(e) if isinstance(n, ast.Name))


def attr_tails(e):
    """set of attribute names and plain names mentioned in expression"""
    out = set()
    for n in ast.walk(e):
        if isinstance(n, ast.Attribute):
            out.add(n.attr)
        elif isinstance(n, ast.Name):
            out.add(n.id)
    return out


def tail(e):
    """last component of a Name/Attribute chain"""
    if isinstance(e, ast.Attribute):
        return e.attr
    if isinstance(e, ast.Name):
        return e.id
    return None


def compare(e):
    """(left, op-class, right) for a single-operator Compare else None.
    Normalised so that a constant operand is on the right (`0 == x` is read as `x == 0`,
    `(1, 1) > v` as `v < (1, 1)`): recognisers do not depend on operand order."""
    if isinstance(e, ast.Compare) and len(e.ops) == 1:
        l, op, r = e.left, type(e.ops[0]), e.comparators[0]
        if op in FLIP and is_const(l) and not is_const(r):
            return r, FLIP[op], l
        return l, op, r
    return None


FLIP = {ast.Lt: ast.Gt, ast.Gt: ast.Lt, ast.LtE: ast.GtE, ast.GtE: ast.LtE, ast.Eq: ast.Eq, ast.NotEq: ast.NotEq}
NEG = {ast.Lt: ast.GtE, ast.Gt: ast.LtE, ast.LtE: ast.Gt, ast.GtE: ast.Lt, ast.Eq: ast.NotEq, ast.NotEq: ast.Eq,
       ast.Is: ast.IsNot, ast.IsNot: ast.Is, ast.In: ast.NotIn, ast.NotIn: ast.In}
OPSYM = {ast.Lt: "<", ast.Gt: ">", ast.LtE: "<=", ast.GtE: ">=", ast.Eq: "==", ast.NotEq: "!=", ast.Is: "is",
         ast.IsNot: "is not", ast.In: "in", ast.NotIn: "not in"}


def method_call(e, name=None):
    """(receiver expr, method name, Call) if e is `recv.method(...)`"""
    if isinstance(e, ast.Call) and isinstance(e.func, ast.Attribute):
        if name is None or e.func.attr == name or (isinstance(name, (tuple, set, list)) and e.func.attr in name):
            return e.func.value, e.func.attr, e
    return None


def stores_in(fnode):
    """[(target expr, value expr or None, stmt)] for assignments in a function (own body)"""
    out = []
    for n in own_walk(fnode):
        if isinstance(n, ast.Assign):
            for t in n.targets:
                out.append((t, n.value, n))
        elif isinstance(n, ast.AugAssign):
            out.append((n.target, n.value, n))
        elif isinstance(n, ast.AnnAssign) and n.value is not None:
            out.append((n.target, n.value, n))
    return out


def flat_targets(t):
    if isinstance(t, (ast.Tuple, ast.List)):
        for x in t.elts:
            yield from flat_targets(x)
    elif isinstance(t, ast.Starred):
        yield from flat_targets(t.value)
    else:
        yield t


def body_always_raises(stmts):
    """last statement of a block is raise (syntactic, used only for quick classification)"""
    return bool(stmts) and isinstance(stmts[-1], ast.Raise)


# --------------------------------------------------------------------------- string formatting, spelling-independent
import re as _re
import string as _string

_PCT = _re.compile(r"%(?:\((\w+)\))?[#0\- +]*(?:\*|\d+)?(?:\.(?:\*|\d+))?([a-zA-Z%])")


def fmt_parts(e):
    """A formatted string as a list of parts, whichever way it is spelled: "..." % x, "...".format(x), f"...",
    literal + expr.  A part is a str (literal text) or a tuple ("v", expr, conversion) with conversion one of
    's' 'r' 'a' 'd' 'x' 'X' ... ; None when `e` is not a recognisable format expression."""
    parts = _fmt(e)
    if parts is None:
        return None
    out = []
    for p in parts:
        if isinstance(p, str) and out and isinstance(out[-1], str):
            out[-1] += p
        elif p != "":
            out.append(p)
    return out


def _fmt(e):
    if isinstance(e, ast.Constant) and isinstance(e.value, str):
        return [e.value]
    if isinstance(e, ast.JoinedStr):
        out = []
        for v in e.values:
            if isinstance(v, ast.Constant):
                out.append(str(v.value))
            elif isinstance(v, ast.FormattedValue):
                conv = {115: "s", 114: "r", 97: "a"}.get(v.conversion)
                if conv is None:
                    conv = "s"
                    if v.format_spec is not None:
                        spec = _fmt(v.format_spec)
                        if spec and len(spec) == 1 and isinstance(spec[0], str) and spec[0] and spec[0][-1].isalpha():
                            conv = spec[0][-1]
                        elif spec:
                            conv = "?"
                inner = _fmt(v.value) if isinstance(v.value, (ast.JoinedStr,)) else None
                out.append(("v", v.value, conv))
        return out
    if isinstance(e, ast.BinOp) and isinstance(e.op, ast.Mod) and isinstance(e.left, ast.Constant) and isinstance(e.left.value, str):
        args = list(e.right.elts) if isinstance(e.right, ast.Tuple) else [e.right]
        out = []
        pos = 0
        i = 0
        txt = e.left.value
        for m in _PCT.finditer(txt):
            out.append(txt[pos:m.start()])
            pos = m.end()
            if m.group(2) == "%":
                out.append("%")
                continue
            if m.group(1) is not None:
                if isinstance(e.right, ast.Dict):
                    val = None
                    for k, v in zip(e.right.keys, e.right.values):
                        if isinstance(k, ast.Constant) and k.value == m.group(1):
                            val = v
                    if val is None:
                        return None
                    out.append(("v", val, m.group(2)))
                    continue
                return None
            if i >= len(args):
                return None
            out.append(("v", args[i], m.group(2)))
            i += 1
        out.append(txt[pos:])
        if i != len(args) and not isinstance(e.right, ast.Dict):
            return None
        return out
    if isinstance(e, ast.Call) and isinstance(e.func, ast.Attribute) and e.func.attr == "format" \
            and isinstance(e.func.value, ast.Constant) and isinstance(e.func.value.value, str):
        out = []
        auto = 0
        kw = {k.arg: k.value for k in e.keywords if k.arg}
        try:
            fields = list(_string.Formatter().parse(e.func.value.value))
        except ValueError:
            return None
        for lit, name, spec, conv in fields:
            out.append(lit)
            if name is None:
                continue
            base = name.split(".")[0].split("[")[0]
            if base == "":
                idx = auto
                auto += 1
                val = e.args[idx] if idx < len(e.args) else None
            elif base.isdigit():
                val = e.args[int(base)] if int(base) < len(e.args) else None
            else:
                val = kw.get(base)
            if val is None or base != name:
                return None
            c = conv or (spec[-1] if spec and spec[-1].isalpha() else "s")
            out.append(("v", val, c))
        return out
    if isinstance(e, ast.BinOp) and isinstance(e.op, ast.Add):
        l, r = _fmt(e.left), _fmt(e.right)
        if l is None and r is None:
            return None
        return (l if l is not None else [("v", e.left, "s")]) + (r if r is not None else [("v", e.right, "s")])
    return None


def fmt_shape(e):
    """('literal {} text', [value exprs], [conversions]) or None"""
    parts = fmt_parts(e)
    if parts is None:
        return None
    txt = "".join(p if isinstance(p, str) else "{}" for p in parts)
    vals = [p[1] for p in parts if not isinstance(p, str)]
    convs = [p[2] for p in parts if not isinstance(p, str)]
    return txt, vals, convs
