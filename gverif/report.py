"""Check context: obligations, violations, known findings, evidence, replay files."""
import json
import os
import time

from .index import AnalysisError

VERIF_DIR = os.path.dirname(os.path.dirname(os.path.abspath(__file__)))
KNOWN_FILE = os.path.join(VERIF_DIR, "known_findings.json")
EVIDENCE_DIR = os.path.join(VERIF_DIR, "evidence")


def load_known():
    if not os.path.exists(KNOWN_FILE):
        return []
    with open(KNOWN_FILE) as f:
        return json.load(f).get("findings", [])


class Ctx:
    def __init__(self, repo, prop, tier="quick", seed=0, quiet=False):
        self.repo = repo
        self.prop = prop
        self.tier = tier
        self.seed = seed
        self.quiet = quiet
        self.t0 = time.time()
        self.records = []        # every rule-instance evaluation
        self.violations = []
        self.known_hits = []
        self.notes = []
        self.tables = {}
        self.funcs = set()
        self.counters = {}
        self.rules = {}          # rule id -> description
        self.undecided = []
        self.assumptions = []
        self.liveness = None
        self._known = [k for k in load_known() if k.get("property") == prop and k.get("status") == "known"]
        self._floors = []

    # ------------------------------------------------------------- recording
    def rule(self, rid, kind, text):
        self.rules[rid] = "[%s] %s" % (kind, text)

    def fn(self, f):
        """register an analysed function"""
        self.funcs.add(f.qualname)
        return f

    def count(self, name, n=1):
        self.counters[name] = self.counters.get(name, 0) + n

    def ok(self, rid, site, detail=""):
        self.records.append({"rule": rid, "site": site, "verdict": "holds", "detail": detail})

    def bad(self, rid, key, site, why, path=None):
        """A violated rule instance. `key` identifies the construct (function + normalised
        text), never a line number."""
        full_key = "%s|%s" % (rid, key)
        rec = {"rule": rid, "key": full_key, "site": site, "verdict": "VIOLATED", "detail": why}
        if path:
            rec["path"] = path
        self.records.append(rec)
        for k in self._known:
            if k.get("key") == full_key:
                rec["verdict"] = "known-finding"
                self.known_hits.append((k, rec))
                return
        self.violations.append(rec)

    def check(self, rid, cond, key, site, why, detail="", path=None):
        if cond:
            self.ok(rid, site, detail)
        else:
            self.bad(rid, key, site, why, path)
        return cond

    def note(self, text):
        self.notes.append(text)

    def table(self, name, rows):
        self.tables[name] = rows

    def floor(self, rid, what, n, minimum):
        """instance-count floor: a rule that matched (almost) nothing is not a pass"""
        self._floors.append((rid, what, n, minimum))
        if n < minimum:
            raise AnalysisError("%s: only %d %s recognised (floor %d): the structure this rule "
                                "quantifies over was not found" % (rid, n, what, minimum))

    def need(self, cond, msg):
        if not cond:
            raise AnalysisError(msg)

    # --------------------------------------------------------------- output
    def finish(self, error=None, write=True):
        wall = time.time() - self.t0
        out_lines = []
        status = 0
        if error is not None:
            out_lines.append("ANALYSIS-ERROR property=%s %s" % (self.prop, error))
            status = 2
        for k, rec in self.known_hits:
            out_lines.append("KNOWN-FINDING: property=%s %s %s -- %s" % (self.prop, rec["rule"], rec["site"], k.get("what", rec["detail"])))
        if True:
            rdir = os.path.join(EVIDENCE_DIR, "replay")
            for i, v in enumerate(self.violations):
                rp = os.path.join(rdir, "%s.%s.%d.json" % (self.prop, v["rule"].split(".")[-1], i))
                if write:
                    os.makedirs(rdir, exist_ok=True)
                    with open(rp, "w") as f:
                        json.dump({"property": self.prop, "rule": v["rule"], "key": v["key"], "site": v["site"],
                                   "why": v["detail"], "path": v.get("path"), "repo": self.repo.root,
                                   "explain": "./bin/gverif explain %s" % rp}, f, indent=1)
                out_lines.append("VIOLATION property=%s replay=%s" % (self.prop, rp))
                out_lines.append("  rule   %s %s" % (v["rule"], self.rules.get(v["rule"], "")))
                out_lines.append("  site   %s" % v["site"])
                if v.get("path"):
                    out_lines.append("  path   %s" % v["path"])
                out_lines.append("  why    %s" % v["detail"])
                out_lines.append("  key    %s" % v["key"])
            if self.violations:
                status = 1
        holds = sum(1 for r in self.records if r["verdict"] == "holds")
        distinct = len(set((r["rule"], r["site"]) for r in self.records))
        summary = "%s %s: %d rule instances evaluated, %d hold, %d known findings, %d violations, %d functions, %.2fs" % (
            self.prop, self.tier, len(self.records), holds, len(self.known_hits), len(self.violations),
            len(self.funcs), wall)
        out_lines.append(summary)
        if write:
            self.write_evidence(wall, error)
        return status, out_lines

    def write_evidence(self, wall, error):
        os.makedirs(EVIDENCE_DIR, exist_ok=True)
        holds = sum(1 for r in self.records if r["verdict"] == "holds")
        distinct = len(set((r["rule"], r["site"]) for r in self.records))
        samples = []
        seen_rules = set()
        for r in self.records:
            if r["rule"] not in seen_rules or r["verdict"] != "holds":
                seen_rules.add(r["rule"])
                samples.append({k: r[k] for k in ("rule", "site", "verdict", "detail") if k in r})
        samples = samples[:60]
        expl = ["Static analysis of %s/gunicorn (no code executed). Rules applied:" % self.repo.root]
        for rid in sorted(self.rules):
            n = sum(1 for r in self.records if r["rule"] == rid)
            expl.append("  %s %s -- %d instance(s)" % (rid, self.rules[rid], n))
        if self.undecided:
            expl.append("NOT decided by this check (behavioural remainder): " + "; ".join(self.undecided))
        if self.notes:
            expl.append("Notes: " + " | ".join(self.notes))
        if error:
            expl.append("ANALYSIS-ERROR: %s" % error)
        cov = {
            "explanation": "\n".join(expl),
            "evaluations": max(len(self.records), 1) if not error else len(self.records),
            "distinct_nontrivial": distinct,
            "rule": "one evaluation = one rule instance (rule x construct discovered in the current tree); "
                    "distinct = distinct (rule, site) pairs; every instance is non-trivial in the sense that "
                    "the rule's recogniser matched a real construct",
            "samples": samples or [{"note": "no instance evaluated"}],
            "obligations": len(self.records),
            "discharged": holds,
            "functions_analysed": sorted(self.funcs),
            "rules": self.rules,
            "instance_floors": [{"rule": a, "what": b, "found": c, "floor": d} for a, b, c, d in self._floors],
            "counters": self.counters,
            "tables": self.tables,
            "known_findings": [{"key": rec["key"], "site": rec["site"], "what": k.get("what")} for k, rec in self.known_hits],
            "violations_detail": [{k: v[k] for k in ("rule", "key", "site", "detail")} for v in self.violations],
            "exhaustive": False,
        }
        cov["normal_forms"] = {
            "helpers_expanded": dict(getattr(self.repo, "expanded", {}) or {}),
            "helpers_absorbed": sorted(getattr(self.repo, "absorbed", ()) or ()),
            "functions_with_alias_expansion": getattr(self.repo, "alias_rewrites", 0),
            "temporaries_folded": getattr(self.repo, "temp_folds", 0),
            "new_constants_folded": getattr(self.repo, "const_folds", 0),
            "unpassed_keyword_parameters_bound": getattr(self.repo, "default_binds", 0),
            "rule": "gverif/inline.py: calls to functions absent from the reference inventory (baseline_funcs.txt) and to 14 small reference helpers are expanded in the "
                    "caller; single-assignment aliases of final attributes are expanded; `t = E` read once by the next statement is folded; module-level constants and "
                    "keyword parameters absent from the reference inventory (baseline_names.txt) are replaced by their value / bound to their default when nothing rebinds / passes them",
        }
        if self.liveness is not None:
            cov["liveness"] = self.liveness
        ev = {
            "property_id": self.prop,
            "tier": self.tier,
            "seed": int(self.seed),
            "level": "other",
            "coverage": cov,
            "assumptions": self.assumptions + [
                "CPython's ast module parses the tree the way the interpreter would",
                "the CFG's exception model: any statement with a call/subscript/attribute may raise an Exception "
                "instance; sys.exit raises SystemExit; os._exit/os.exec* do not return",
                "specification tables in gverif/spec.py (RFC 9110/9112, PEP 3333, gunicorn docs) are correct",
                "normal forms: attribute look-ups have no side effects; an attribute assigned only in __init__/init-phase methods "
                "that a function cannot reach is not rebound while that function runs",
            ],
            "wall_s": round(wall, 3),
            "violations": len(self.violations),
        }
        path = os.path.join(EVIDENCE_DIR, "%s.json" % self.prop)
        tmp = path + ".tmp"
        with open(tmp, "w") as f:
            json.dump(ev, f, indent=1, sort_keys=True, default=str)
        os.replace(tmp, path)
