"""A2b: extract-method normalisation.

A function that is not in the frozen list of the functions of the reference tree (`baseline_funcs.txt`) is a *helper
introduced by a change*.  Calls to such helpers that resolve statically (`self.h(..)`, `super().h(..)`, module-level
`h(..)`, `mod.h(..)`) are expanded in the caller's syntax tree before any rule looks at it, so that a rule anchored in
`Arbiter.reap_workers` sees the statements that a refactoring moved into `Arbiter._reap_worker` -- with the caller's
guards, locks and handlers around them -- exactly as if they were still written in place.  On the reference tree no
function is a helper and nothing is rewritten.

The expansion is semantics-preserving and syntactic:
  * a parameter that the callee never rebinds and whose argument is a name or constant is substituted; any other
    parameter becomes an assignment `p' = <argument>` in call order; defaults are honoured;
  * callee locals are renamed when they collide with a caller name;
  * `return v`   becomes  `<target> = v` + jump-to-end-of-block  (InlineJump; no jump when the return is in tail position);
    the target is the caller's assignment target, the caller's own `return`, nothing (expression statement) or a
    fresh temporary that replaces the call inside the caller's expression;
  * only a call that is the first call evaluated by its statement, outside short-circuit / conditional / lambda /
    comprehension context, is expanded (evaluation order is preserved);
  * generators, decorated functions (other than staticmethod), star-arguments, nested defs, overridden methods and
    recursive helpers are left as opaque calls.
Two synthetic statement classes appear in rewritten trees: InlineBlock(body) (a block whose end InlineJump statements
jump to) and InlineJump.  The CFG builder gives them exact edges (including finally unwinding).
"""
import ast
import copy
import os

_HERE = os.path.dirname(os.path.abspath(__file__))
BASELINE_FILE = os.path.join(_HERE, "baseline_funcs.txt")


class InlineBlock(ast.stmt):
    _fields = ("body",)


class InlineJump(ast.stmt):
    _fields = ()


def _unparse_block(self, node):
    self.fill("if True:  # inlined %s" % getattr(node, "callee", "?"))
    with self.block():
        self.traverse(node.body)


def _unparse_jump(self, node):
    self.fill("pass  # return from inlined %s" % getattr(node, "callee", "?"))


try:                                    # make ast.unparse total on rewritten trees (reports only)
    ast._Unparser.visit_InlineBlock = _unparse_block
    ast._Unparser.visit_InlineJump = _unparse_jump
except Exception:                       # pragma: no cover
    pass


# Small helpers of the reference tree that are expanded into their callers as well: "inline method" is as common a
# refactoring as "extract method", and a rule must give the same verdict whether such a helper exists or was folded
# into its caller.  Rules are written against the expanded form (they never name these functions).
ALWAYS_EXPAND = frozenset((
    "gunicorn.arbiter.Arbiter.spawn_workers",
    "gunicorn.arbiter.Arbiter.kill_workers",
    "gunicorn.workers.gthread.TConn.set_timeout",
    "gunicorn.workers.gthread.ThreadWorker._wrap_future",
    "gunicorn.workers.gthread.ThreadWorker.is_parent_alive",
    "gunicorn.workers.sync.SyncWorker.is_parent_alive",
    "gunicorn.http.wsgi.Response.process_headers",
    "gunicorn.http.wsgi.Response.can_sendfile",
    "gunicorn.http.wsgi.proxy_environ",
    "gunicorn.http.body.ChunkedReader.get_data",
    "gunicorn.http.message.Request.get_data",
    "gunicorn.util._called_with_wrong_args",
    "gunicorn.arbiter.Arbiter.init_signals",
    "gunicorn.workers.sync.SyncWorker.accept",
))

BASELINE_NAMES_FILE = os.path.join(_HERE, "baseline_names.txt")
_baseline = None
_baseline_names = None


def baseline_names():
    """(module-level names, function signatures) of the reference tree: {"module:NAME"}, {"qualname": (params..)}"""
    global _baseline_names
    if _baseline_names is None:
        names, sigs = set(), {}
        with open(BASELINE_NAMES_FILE) as f:
            for l in f:
                l = l.strip()
                if not l or l.startswith("#"):
                    continue
                if l.startswith("N "):
                    names.add(l[2:])
                elif l.startswith("S "):
                    q, _, ps = l[2:].partition("(")
                    sigs[q] = tuple(x for x in ps.rstrip(")").split(",") if x)
        _baseline_names = (names, sigs)
    return _baseline_names


def module_names_and_sigs(modules):
    """inventory used for the baseline file and for comparing a tree against it"""
    names, sigs = set(), {}
    for m in modules.values():
        for st in m.tree.body:
            for t in (st.targets if isinstance(st, ast.Assign) else [st.target] if isinstance(st, (ast.AnnAssign, ast.AugAssign)) else []):
                for n in ast.walk(t):
                    if isinstance(n, ast.Name):
                        names.add("%s:%s" % (m.name, n.id))

        def visit(body, prefix):
            for st in body:
                if isinstance(st, (ast.FunctionDef, ast.AsyncFunctionDef)):
                    a = st.args
                    ps = [x.arg for x in a.posonlyargs + a.args] + ([("*" + a.vararg.arg)] if a.vararg else []) + [x.arg for x in a.kwonlyargs] + ([("**" + a.kwarg.arg)] if a.kwarg else [])
                    sigs["%s.%s" % (prefix, st.name)] = tuple(ps)
                elif isinstance(st, ast.ClassDef):
                    visit(st.body, "%s.%s" % (prefix, st.name))
        visit(m.tree.body, m.name)
    return names, sigs


def _const_expr(e):
    """an immutable, side-effect free expression: literals, tuples of such, dotted names (errno.EAGAIN), arithmetic on them"""
    if isinstance(e, ast.Constant):
        return True
    if isinstance(e, ast.Tuple):
        return all(_const_expr(x) for x in e.elts)
    if isinstance(e, ast.Attribute):
        return _const_expr(e.value) if isinstance(e.value, ast.Attribute) else isinstance(e.value, ast.Name)
    if isinstance(e, ast.UnaryOp):
        return _const_expr(e.operand)
    if isinstance(e, ast.BinOp):
        return _const_expr(e.left) and _const_expr(e.right)
    return False


def _simplify(e):
    """fold arithmetic on literals (`b"\\r\\n" + b"\\r\\n"`, `2 * 4096`) into one literal"""
    if isinstance(e, ast.BinOp):
        l, r = _simplify(e.left), _simplify(e.right)
        if isinstance(l, ast.Constant) and isinstance(r, ast.Constant) and isinstance(e.op, (ast.Add, ast.Sub, ast.Mult)):
            try:
                a, b = l.value, r.value
                if type(a) in (int, float, str, bytes) and type(b) in (int, float, str, bytes):
                    v = a + b if isinstance(e.op, ast.Add) else a - b if isinstance(e.op, ast.Sub) else a * b
                    if not isinstance(v, (str, bytes)) or len(v) < 4096:
                        return ast.copy_location(ast.Constant(value=v), e)
            except Exception:
                pass
        e.left, e.right = l, r
        return e
    if isinstance(e, ast.Tuple):
        e.elts = [_simplify(x) for x in e.elts]
    return e


def _scope_binds(fn):
    """names bound in a function scope (parameters, stores, imports, nested defs)"""
    out = set()
    a = fn.args
    for x in a.posonlyargs + a.args + a.kwonlyargs + ([a.vararg] if a.vararg else []) + ([a.kwarg] if a.kwarg else []):
        out.add(x.arg)
    for n in ast.walk(fn):
        if isinstance(n, ast.Name) and isinstance(n.ctx, (ast.Store, ast.Del)):
            out.add(n.id)
        elif isinstance(n, (ast.FunctionDef, ast.AsyncFunctionDef, ast.ClassDef)) and n is not fn:
            out.add(n.name)
        elif isinstance(n, ast.alias):
            out.add((n.asname or n.name).split(".")[0])
        elif isinstance(n, ast.ExceptHandler) and n.name:
            out.add(n.name)
    return out


class _ConstFolder(ast.NodeTransformer):
    def __init__(self, consts):
        self.consts = consts
        self.shadow = [set()]
        self.count = 0

    def _fn(self, node):
        # defaults and decorators are evaluated in the enclosing scope
        node.args.defaults = [self.visit(d) for d in node.args.defaults]
        node.args.kw_defaults = [self.visit(d) if d is not None else None for d in node.args.kw_defaults]
        self.shadow.append(_scope_binds(node))
        node.body = [self.visit(st) for st in node.body]
        self.shadow.pop()
        return node
    visit_FunctionDef = _fn
    visit_AsyncFunctionDef = _fn

    def visit_Lambda(self, node):
        self.shadow.append(set(x.arg for x in node.args.args + node.args.kwonlyargs))
        node.body = self.visit(node.body)
        self.shadow.pop()
        return node

    def visit_Name(self, node):
        if isinstance(node.ctx, ast.Load) and node.id in self.consts and not any(node.id in sc for sc in self.shadow[1:]):
            self.count += 1
            new = copy.deepcopy(self.consts[node.id])
            for n in ast.walk(new):
                ast.copy_location(n, node)
                n._inl = True
            return new
        return node


def fold_new_constants(modules):
    """Normal form for *introduce named constant*: a module-level name that the reference tree does not have, bound once at
    module level to an immutable constant expression and never rebound, is replaced by that expression wherever the module
    reads it (`POLL_TIMEOUT = 1.0 ... select(POLL_TIMEOUT)` is `select(1.0)`), also through `from mod import NAME`."""
    base_names, _ = baseline_names()
    total = 0
    per_mod = {}
    for m in modules.values():
        cands = {}
        stores = {}
        for n in ast.walk(m.tree):
            if isinstance(n, ast.Name) and isinstance(n.ctx, (ast.Store, ast.Del)):
                stores[n.id] = stores.get(n.id, 0) + 1
            elif isinstance(n, ast.Global):
                for g in n.names:
                    stores[g] = stores.get(g, 0) + 2
        for st in m.tree.body:
            tgt = val = None
            if isinstance(st, ast.Assign) and len(st.targets) == 1 and isinstance(st.targets[0], ast.Name):
                tgt, val = st.targets[0].id, st.value
            elif isinstance(st, ast.AnnAssign) and isinstance(st.target, ast.Name) and st.value is not None:
                tgt, val = st.target.id, st.value
            if tgt is None or ("%s:%s" % (m.name, tgt)) in base_names:
                continue
            if not _const_expr(val):
                # a constant built from earlier new constants of this module (`HEADERS_END = CRLF + CRLF`)
                val2 = _ConstFolder(dict(cands)).visit(copy.deepcopy(val))
                if not _const_expr(val2):
                    continue
                val = val2
            val = _simplify(copy.deepcopy(val))
            # bound once in the whole module (function-local stores of the same name shadow, they do not rebind; a
            # `global` declaration does)
            top = sum(1 for s2 in m.tree.body for t in (s2.targets if isinstance(s2, ast.Assign) else [s2.target] if isinstance(s2, (ast.AnnAssign, ast.AugAssign)) else [])
                      for x in ast.walk(t) if isinstance(x, ast.Name) and x.id == tgt)
            if top != 1 or any(isinstance(n, ast.Global) and tgt in n.names for n in ast.walk(m.tree)):
                continue
            cands[tgt] = val
        per_mod[m.name] = cands
    # constants folded into constants (`B = A + 1`)
    for _ in range(3):
        for mn, cands in per_mod.items():
            for k in list(cands):
                f = _ConstFolder({x: v for x, v in cands.items() if x != k})
                cands[k] = f.visit(copy.deepcopy(cands[k]))
    for m in modules.values():
        consts = dict(per_mod.get(m.name, {}))
        # names imported from sibling modules
        for st in m.tree.body:
            if isinstance(st, ast.ImportFrom) and st.module is not None:
                src = st.module if st.level == 0 else None
                if st.level:
                    pkg = m.name.split(".")
                    pkg = pkg[:len(pkg) - st.level + (1 if getattr(m, "is_pkg", False) else 0)]
                    src = ".".join(pkg + ([st.module] if st.module else []))
                for al in st.names:
                    if src in per_mod and al.name in per_mod[src]:
                        consts[al.asname or al.name] = per_mod[src][al.name]
        if not consts:
            continue
        f = _ConstFolder(consts)
        new_body = []
        for st in m.tree.body:
            if isinstance(st, (ast.Assign, ast.AnnAssign)) and any(isinstance(t, ast.Name) and t.id in per_mod.get(m.name, {}) for t in (st.targets if isinstance(st, ast.Assign) else [st.target])):
                new_body.append(st)          # the definition itself stays
            else:
                new_body.append(f.visit(st))
        m.tree.body = new_body
        total += f.count
    return total


def _cm_decorated(fn):
    return any((isinstance(d, ast.Attribute) and d.attr == "contextmanager") or (isinstance(d, ast.Name) and d.id == "contextmanager") for d in fn.decorator_list)


def _plain_arg(e):
    if isinstance(e, (ast.Constant, ast.Name)):
        return True
    if isinstance(e, ast.Attribute):
        return _plain_arg(e.value)
    if isinstance(e, (ast.List, ast.Tuple)):
        return all(_plain_arg(x) for x in e.elts)
    if isinstance(e, ast.BinOp):
        return _plain_arg(e.left) and _plain_arg(e.right)
    return False


def split_context_managers(modules):
    """Normal form for *extract into a context manager*: a generator-based context manager that the reference tree does not
    have -- `@contextmanager def h(p): PRE; try: yield [v] finally: POST` (or without the try) -- is split into two plain
    functions `h__enter(p)` (PRE; return v) and `h__exit(p)` (POST), and every `with X.h(args) [as t]: BODY` of the same
    module becomes `[t =] X.h__enter(args); try: BODY finally: X.h__exit(args)`, which the helper expansion then folds into
    the caller like any other new helper.  Conditions (else the `with` stays opaque): one yield, at statement level; POST uses
    no local bound by PRE; the arguments are plain names / attributes / constants / displays of those (they are written
    twice); without the try form BODY has no return / break / continue."""
    base = baseline()
    total = 0
    for m in modules.values():
        scopes = [(m.tree, m.name)] + [(c, "%s.%s" % (m.name, c.name)) for c in m.tree.body if isinstance(c, ast.ClassDef)]
        split = {}
        for scope, prefix in scopes:
            for fn in list(scope.body):
                if not (isinstance(fn, ast.FunctionDef) and _cm_decorated(fn)) or ("%s.%s" % (prefix, fn.name)) in base:
                    continue
                if fn.args.vararg or fn.args.kwarg or fn.args.posonlyargs or fn.args.kwonlyargs:
                    continue
                body = [st for st in fn.body if not (isinstance(st, ast.Expr) and isinstance(st.value, ast.Constant) and isinstance(st.value.value, str))]
                yields = [n for n in ast.walk(fn) if isinstance(n, (ast.Yield, ast.YieldFrom))]
                if len(yields) != 1 or isinstance(yields[0], ast.YieldFrom) or any(isinstance(n, ast.Return) for n in ast.walk(fn)):
                    continue
                pre, post, val, tryform = None, None, None, False
                for i, st in enumerate(body):
                    if isinstance(st, ast.Expr) and st.value is yields[0]:
                        pre, post, val = body[:i], body[i + 1:], yields[0].value
                        break
                    if isinstance(st, ast.Try) and not st.handlers and not st.orelse and len(st.body) == 1 and isinstance(st.body[0], ast.Expr) and st.body[0].value is yields[0] and i == len(body) - 1:
                        pre, post, val, tryform = body[:i], st.finalbody, yields[0].value, True
                        break
                if pre is None or any(isinstance(n, (ast.Yield, ast.YieldFrom)) for st in pre + post for n in ast.walk(st)):
                    continue
                pre_binds = set(n.id for st in pre for n in ast.walk(st) if isinstance(n, ast.Name) and isinstance(n.ctx, ast.Store))
                if any(isinstance(n, ast.Name) and n.id in pre_binds for st in post for n in ast.walk(st)):
                    continue
                decos = [d for d in fn.decorator_list if not ((isinstance(d, ast.Attribute) and d.attr == "contextmanager") or (isinstance(d, ast.Name) and d.id == "contextmanager"))]
                ret = ast.Return(value=copy.deepcopy(val) if val is not None else ast.Constant(value=None))
                f_en = ast.FunctionDef(name=fn.name + "__enter", args=copy.deepcopy(fn.args), body=[copy.deepcopy(x) for x in pre] + [ret], decorator_list=copy.deepcopy(decos), returns=None, type_comment=None)
                f_ex = ast.FunctionDef(name=fn.name + "__exit", args=copy.deepcopy(fn.args), body=[copy.deepcopy(x) for x in post] or [ast.Pass()], decorator_list=copy.deepcopy(decos), returns=None, type_comment=None)
                for nf in (f_en, f_ex):
                    if hasattr(nf, "type_params"):
                        nf.type_params = []
                    ast.copy_location(nf, fn)
                    for n in ast.walk(nf):
                        if not hasattr(n, "lineno"):
                            ast.copy_location(n, fn)
                    ast.fix_missing_locations(nf)
                k = scope.body.index(fn)
                scope.body[k + 1:k + 1] = [f_en, f_ex]
                split[fn.name] = tryform
        if not split:
            continue

        class _W(ast.NodeTransformer):
            def visit_With(self, node):
                self.generic_visit(node)
                if len(node.items) != 1:
                    return node
                it = node.items[0]
                c = it.context_expr
                if not isinstance(c, ast.Call) or c.keywords and any(k.arg is None for k in c.keywords):
                    return node
                nm = c.func.attr if isinstance(c.func, ast.Attribute) else (c.func.id if isinstance(c.func, ast.Name) else None)
                if nm not in split or not all(_plain_arg(a) for a in c.args) or not all(_plain_arg(k.value) for k in c.keywords):
                    return node
                if isinstance(c.func, ast.Attribute) and not _plain_arg(c.func.value):
                    return node
                tryform = split[nm]
                if not tryform and any(isinstance(n, (ast.Return, ast.Break, ast.Continue)) for st in node.body for n in ast.walk(st)):
                    return node

                def call(suffix):
                    cc = copy.deepcopy(c)
                    if isinstance(cc.func, ast.Attribute):
                        cc.func.attr = nm + suffix
                    else:
                        cc.func.id = nm + suffix
                    return cc
                enter = call("__enter")
                first = ast.Assign(targets=[copy.deepcopy(it.optional_vars)], value=enter) if it.optional_vars is not None else ast.Expr(value=enter)
                if it.optional_vars is not None:
                    for n in ast.walk(first.targets[0]):
                        if hasattr(n, "ctx"):
                            n.ctx = ast.Store()
                last = ast.Expr(value=call("__exit"))
                if tryform:
                    rest = [ast.Try(body=node.body, handlers=[], orelse=[], finalbody=[last])]
                else:
                    rest = node.body + [last]
                out = [first] + rest
                for o in out:
                    ast.copy_location(o, node)
                    ast.fix_missing_locations(o)
                nonlocal_total[0] += 1
                return out
        nonlocal_total = [0]
        m.tree = _W().visit(m.tree)
        ast.fix_missing_locations(m.tree)
        total += nonlocal_total[0]
    return total


def bind_unpassed_defaults(modules):
    """Normal form for *add a keyword parameter nobody passes*: a parameter that the reference tree's signature of the
    function does not have, with an immutable constant default, that no call in the package supplies (by keyword, or by
    position beyond the old signature), becomes a local bound to its default at the top of the function."""
    _, base_sigs = baseline_names()
    _, sigs = module_names_and_sigs(modules)
    # how are functions of each name called anywhere in the package?
    calls = {}
    for m in modules.values():
        for n in ast.walk(m.tree):
            if isinstance(n, ast.Call):
                nm = n.func.attr if isinstance(n.func, ast.Attribute) else (n.func.id if isinstance(n.func, ast.Name) else None)
                if nm:
                    calls.setdefault(nm, []).append(n)
    done = 0
    for m in modules.values():
        def visit(body, prefix):
            nonlocal done
            for st in body:
                if isinstance(st, ast.ClassDef):
                    visit(st.body, "%s.%s" % (prefix, st.name))
                elif isinstance(st, (ast.FunctionDef, ast.AsyncFunctionDef)):
                    q = "%s.%s" % (prefix, st.name)
                    if q not in base_sigs:
                        continue
                    old = set(x.lstrip("*") for x in base_sigs[q])
                    a = st.args
                    if a.vararg is not None or a.posonlyargs:
                        continue
                    pos = a.args
                    ndef = len(a.defaults)
                    new_tail = []
                    # only a suffix of the positional parameters can be dropped without renumbering the others
                    i = len(pos) - 1
                    while i >= 0 and pos[i].arg not in old and (len(pos) - i) <= ndef and _const_expr(a.defaults[ndef - (len(pos) - i)]):
                        new_tail.append(i)
                        i -= 1
                    kw_new = [j for j, x in enumerate(a.kwonlyargs) if x.arg not in old and a.kw_defaults[j] is not None and _const_expr(a.kw_defaults[j])]
                    if not new_tail and not kw_new:
                        continue
                    first_new = min(new_tail) if new_tail else len(pos)
                    is_method = prefix != m.name and pos and pos[0].arg in ("self", "cls")
                    names_new = set(pos[k].arg for k in new_tail) | set(a.kwonlyargs[j].arg for j in kw_new)
                    passed = False
                    for c in calls.get(st.name, []):
                        npos_allowed = first_new - (1 if is_method and isinstance(c.func, ast.Attribute) else 0)
                        if len(c.args) > npos_allowed or any(isinstance(x, ast.Starred) for x in c.args) or any(k.arg is None or k.arg in names_new for k in c.keywords):
                            passed = True
                    # the function handed around as a value (callback) could be called with anything
                    refs = sum(1 for mm in modules.values() for n in ast.walk(mm.tree)
                               if (isinstance(n, ast.Attribute) and n.attr == st.name) or (isinstance(n, ast.Name) and n.id == st.name and isinstance(n.ctx, ast.Load)))
                    called = sum(1 for c in calls.get(st.name, []))
                    if passed or refs > called:
                        continue
                    binds = []
                    for k in sorted(new_tail):
                        d = a.defaults[ndef - (len(pos) - k)]
                        b = ast.Assign(targets=[ast.Name(id=pos[k].arg, ctx=ast.Store())], value=d, lineno=st.lineno)
                        binds.append(b)
                    for j in kw_new:
                        b = ast.Assign(targets=[ast.Name(id=a.kwonlyargs[j].arg, ctx=ast.Store())], value=a.kw_defaults[j], lineno=st.lineno)
                        binds.append(b)
                    if new_tail:
                        a.defaults = a.defaults[:ndef - len(new_tail)]
                        a.args = pos[:first_new]
                    if kw_new:
                        a.kw_defaults = [d for j, d in enumerate(a.kw_defaults) if j not in kw_new]
                        a.kwonlyargs = [x for j, x in enumerate(a.kwonlyargs) if j not in kw_new]
                    for b in binds:
                        ast.copy_location(b, st.body[0])
                        ast.fix_missing_locations(b)
                        b._inl = True
                    k0 = 1 if (st.body and isinstance(st.body[0], ast.Expr) and isinstance(st.body[0].value, ast.Constant) and isinstance(st.body[0].value.value, str)) else 0
                    st.body = st.body[:k0] + binds + st.body[k0:]
                    done += len(binds)
        visit(m.tree.body, m.name)
    return done


def baseline():
    global _baseline
    if _baseline is None:
        with open(BASELINE_FILE) as f:
            _baseline = frozenset(l.strip() for l in f if l.strip() and not l.startswith("#"))
    return _baseline


# --------------------------------------------------------------------------- eligibility
def _own(node):
    from .index import walk_own
    return walk_own(node)


def eligible(fi):
    n = fi.node
    if not isinstance(n, ast.FunctionDef):
        return False
    for d in n.decorator_list:
        if not (isinstance(d, ast.Name) and d.id == "staticmethod"):
            return False
    a = n.args
    if a.vararg or a.kwarg or a.posonlyargs:
        return False
    if fi.parent is not None:           # nested function: closes over its parent's locals
        return False
    for x in _own(n):
        if isinstance(x, (ast.Yield, ast.YieldFrom, ast.Await, ast.Nonlocal, ast.FunctionDef,
                          ast.AsyncFunctionDef, ast.ClassDef)):
            return False
        if isinstance(x, ast.Global) and fi.cls is not None:
            return False            # (module-level helpers only: the expansion re-declares the names in a caller of the same module)
        if isinstance(x, ast.Call) and isinstance(x.func, ast.Name) and x.func.id in ("locals", "vars", "super") \
                and not x.args and x.func.id != "super":
            return False
    return True


def _is_static(fi):
    return any(isinstance(d, ast.Name) and d.id == "staticmethod" for d in fi.node.decorator_list)


# --------------------------------------------------------------------------- evaluation order
_HEADER = {
    ast.Expr: ("value",), ast.Assign: ("value",), ast.AugAssign: ("value",), ast.AnnAssign: ("value",),
    ast.Return: ("value",), ast.If: ("test",), ast.For: ("iter",), ast.Raise: ("exc",), ast.Assert: ("test",),
}


def _eager(e, parent, field, idx):
    """yield (call, parent, field, idx) for Calls in evaluation order, restricted to unconditionally evaluated
    positions; yields ("stop",)*4 when conditional context is reached before."""
    if e is None:
        return
    if isinstance(e, ast.Call):
        yield from _eager(e.func, e, "func", None)
        for i, a in enumerate(e.args):
            if isinstance(a, ast.Starred):
                yield ("stop", None, None, None)
                return
            yield from _eager(a, e, "args", i)
        for i, k in enumerate(e.keywords):
            if k.arg is None:
                yield ("stop", None, None, None)
                return
            yield from _eager(k.value, k, "value", None)
        yield (e, parent, field, idx)
        return
    if isinstance(e, (ast.Name, ast.Constant)):
        return
    if isinstance(e, ast.Attribute):
        yield from _eager(e.value, e, "value", None)
        return
    if isinstance(e, ast.UnaryOp):
        yield from _eager(e.operand, e, "operand", None)
        return
    if isinstance(e, ast.BinOp):
        yield from _eager(e.left, e, "left", None)
        yield from _eager(e.right, e, "right", None)
        return
    if isinstance(e, ast.Compare):
        yield from _eager(e.left, e, "left", None)
        yield from _eager(e.comparators[0], e, "comparators", 0)
        if any(_has_call(c) for c in e.comparators[1:]):
            yield ("stop", None, None, None)
        return
    if isinstance(e, ast.BoolOp):
        yield from _eager(e.values[0], e, "values", 0)
        if any(_has_call(v) for v in e.values[1:]):
            yield ("stop", None, None, None)
        return
    if isinstance(e, ast.IfExp):
        yield from _eager(e.test, e, "test", None)
        if _has_call(e.body) or _has_call(e.orelse):
            yield ("stop", None, None, None)
        return
    if isinstance(e, ast.Lambda):
        return                           # nothing is evaluated now
    if isinstance(e, ast.Starred):
        yield from _eager(e.value, e, "value", None)
        return
    if isinstance(e, ast.Subscript):
        yield from _eager(e.value, e, "value", None)
        yield from _eager(e.slice, e, "slice", None)
        return
    if isinstance(e, ast.Slice):
        yield from _eager(e.lower, e, "lower", None)
        yield from _eager(e.upper, e, "upper", None)
        yield from _eager(e.step, e, "step", None)
        return
    if isinstance(e, (ast.Tuple, ast.List, ast.Set)):
        for i, x in enumerate(e.elts):
            if isinstance(x, ast.Starred):
                yield ("stop", None, None, None)
                return
            yield from _eager(x, e, "elts", i)
        return
    if isinstance(e, ast.Dict):
        for i, (k, v) in enumerate(zip(e.keys, e.values)):
            if k is None:
                yield ("stop", None, None, None)
                return
            yield from _eager(k, e, "keys", i)
            yield from _eager(v, e, "values", i)
        return
    if isinstance(e, ast.JoinedStr):
        for i, v in enumerate(e.values):
            if isinstance(v, ast.FormattedValue):
                yield from _eager(v.value, v, "value", None)
        return
    if not _has_call(e):
        return
    yield ("stop", None, None, None)     # comprehension, await, ... containing calls


def _has_call(e):
    return e is not None and any(isinstance(x, (ast.Call, ast.Await, ast.Yield, ast.YieldFrom)) for x in ast.walk(e))


def _first_call(st):
    fields = None
    for t, fs in _HEADER.items():
        if isinstance(st, t):
            fields = fs
    if isinstance(st, (ast.With,)) and st.items:
        for x in _eager(st.items[0].context_expr, st.items[0], "context_expr", None):
            return None if x[0] == "stop" else x
        return None
    if not fields:
        return None
    for f in fields:
        for x in _eager(getattr(st, f), st, f, None):
            return None if x[0] == "stop" else x
    return None


def _first_helper_call(cx, st):
    """the first helper call of the statement in evaluation order, provided that every call evaluated before it is part
    of its own arguments (those are bound to temporaries, in order, ahead of the expanded body)"""
    fields = None
    for t, fs in _HEADER.items():
        if isinstance(st, t):
            fields = fs
    if isinstance(st, ast.With) and st.items:
        seq = _eager(st.items[0].context_expr, st.items[0], "context_expr", None)
    elif fields:
        seq = (x for f in fields for x in _eager(getattr(st, f), st, f, None))
    else:
        return None
    prior = []
    for x in seq:
        if x[0] == "stop":
            return None
        if _resolve_helper(cx, x[0]) is not None:
            inside = set(id(n) for a in list(x[0].args) + [k.value for k in x[0].keywords] for n in ast.walk(a))
            if all(id(p) in inside for p in prior):
                return x
            return None
        prior.append(x[0])
    return None


def _set(parent, field, idx, value):
    if idx is None:
        setattr(parent, field, value)
    else:
        getattr(parent, field)[idx] = value


# --------------------------------------------------------------------------- the rewriting
class _Ctx:
    def __init__(self, repo, fi, helpers):
        self.repo = repo
        self.fi = fi
        self.helpers = helpers
        self.used = set(fi.locals) | set(n.id for n in ast.walk(fi.node) if isinstance(n, ast.Name))
        self.count = 0
        self.changed = False
        self.inlined = []
        self.tries = []          # enclosing try statements (with handlers or finally) of the statement in hand
        self.free = set()        # caller names the callee may reuse (dead across the expanded call)

    def fresh(self, base):
        if base in self.free:
            return base
        if base not in self.used:
            self.used.add(base)
            return base
        i = 1
        while "%s__%d" % (base, i) in self.used:
            i += 1
        nm = "%s__%d" % (base, i)
        self.used.add(nm)
        return nm


def _falls_through(stmts):
    if not stmts:
        return True
    last = stmts[-1]
    if isinstance(last, (ast.Return, ast.Raise, InlineJump)):
        return False
    if isinstance(last, ast.If):
        return _falls_through(last.body) or _falls_through(last.orelse)
    if isinstance(last, ast.Try):
        if last.finalbody and not _falls_through(last.finalbody):
            return False
        paths = [last.orelse if last.orelse else last.body] + [h.body for h in last.handlers]
        if last.orelse and not _falls_through(last.body):
            paths[0] = last.body
        return any(_falls_through(p) for p in paths)
    if isinstance(last, ast.With):
        return True if _falls_through(last.body) else False
    if isinstance(last, ast.While) and isinstance(last.test, ast.Constant) and last.test.value and not last.orelse:
        return any(isinstance(x, ast.Break) for x in ast.walk(last))
    if isinstance(last, InlineBlock):
        return True
    return True


def _resolve_helper(cx, call):
    """FuncInfo of the helper a call expands to, with the receiver expression (or None), else None."""
    repo, fi = cx.repo, cx.fi
    try:
        q = repo.call_target(fi.module, fi, call)
    except Exception:
        return None
    other_recv = None
    if (not q or q not in cx.helpers) and isinstance(call.func, ast.Attribute) and isinstance(call.func.value, ast.Name):
        # `conn.set_timeout()`: a method name that exactly one function of the package bears, called on a plain local
        cands = [h_ for h_ in cx.helpers.values() if h_.name == call.func.attr and h_.cls is not None]
        every = [f_ for f_ in repo._funcs.values() if f_.name == call.func.attr]
        if len(cands) == 1 and len(every) == 1 and not _is_static(cands[0]) and call.func.value.id in fi.locals | set(fi.params) \
                and not (fi.params and call.func.value.id == fi.params[0] and fi.cls is not None):
            q = cands[0].qualname
            other_recv = call.func.value
    if not q or q not in cx.helpers:
        return None
    h = cx.helpers[q]
    if h is fi or h.node is fi.node:
        return None
    recv = None
    if other_recv is not None:
        recv = ast.Name(id=other_recv.id, ctx=ast.Load())
    elif h.cls is not None:
        f = call.func
        if not isinstance(f, ast.Attribute):
            return None
        owner = fi
        while owner is not None and owner.cls is None and owner.parent is not None:
            owner = owner.parent
        if owner is None or owner.cls is None or owner is not fi:
            return None                                  # nested function: `self` is a closure variable; keep it simple
        params = fi.params
        if not params or _is_static(fi):
            return None
        selfname = params[0]
        if isinstance(f.value, ast.Name) and f.value.id == selfname:
            recv = ast.Name(id=selfname, ctx=ast.Load())
            # dynamic dispatch: the helper must not be overridden below the caller's class
            if len(repo.overrides(fi.cls.qualname, h.name)) > 1 or \
                    (len(repo.overrides(fi.cls.qualname, h.name)) == 1 and repo.overrides(fi.cls.qualname, h.name)[0] is not h):
                return None
        elif isinstance(f.value, ast.Call) and isinstance(f.value.func, ast.Name) and f.value.func.id == "super" \
                and not f.value.args:
            recv = ast.Name(id=selfname, ctx=ast.Load())
        else:
            return None
    else:
        if h.module is not fi.module:
            # free names of the callee must mean the same thing in the caller's module
            bound = set(h.locals)
            for n in ast.walk(h.node):
                if isinstance(n, ast.Name) and n.id not in bound:
                    q1 = repo.resolve(h.module, None, n)
                    q2 = repo.resolve(fi.module, None, n)
                    if q1 != q2 or n.id in fi.locals:
                        return None
                    if "." not in (q1 or "") and n.id in (set(h.module.functions) | set(h.module.classes) | set(h.module.consts)):
                        return None
        else:
            for n in ast.walk(h.node):
                if isinstance(n, ast.Name) and n.id not in h.locals and n.id in fi.locals:
                    return None                          # a caller local would capture the callee's global
    if any(isinstance(a, ast.Starred) for a in call.args) or any(k.arg is None for k in call.keywords):
        return None
    if h.cls is not fi.cls:
        # zero-argument super() and name mangling are bound to the lexically enclosing class
        for n in _own(h.node):
            if isinstance(n, ast.Call) and isinstance(n.func, ast.Name) and n.func.id == "super":
                return None
            if isinstance(n, ast.Attribute) and n.attr.startswith("__") and not n.attr.endswith("__"):
                return None
            if isinstance(n, ast.Name) and n.id == "__class__":
                return None
    for d in list(h.node.args.defaults) + [d for d in h.node.args.kw_defaults if d is not None]:
        if not isinstance(d, (ast.Constant, ast.Name, ast.Attribute)) and not \
                (isinstance(d, ast.UnaryOp) and isinstance(d.operand, ast.Constant)):
            return None                                  # a default is evaluated once, at definition time
    return h, recv


class _Renamer(ast.NodeTransformer):
    def __init__(self, ren, subst):
        self.ren = ren
        self.subst = subst

    def visit_Name(self, n):
        if n.id in self.subst and isinstance(n.ctx, ast.Load):
            return copy.deepcopy(self.subst[n.id])
        if n.id in self.ren:
            return ast.copy_location(ast.Name(id=self.ren[n.id], ctx=n.ctx), n)
        return n

    def visit_ExceptHandler(self, n):
        self.generic_visit(n)
        if n.name and n.name in self.ren:
            n.name = self.ren[n.name]
        return n

    def visit_Lambda(self, n):
        shadow = set(a.arg for a in n.args.args + n.args.kwonlyargs)
        if shadow & (set(self.ren) | set(self.subst)):
            sub = _Renamer({k: v for k, v in self.ren.items() if k not in shadow},
                           {k: v for k, v in self.subst.items() if k not in shadow})
            n.body = sub.visit(n.body)
            return n
        return self.generic_visit(n)


def _stores(node):
    out = set()
    for n in _own(node):
        if isinstance(n, ast.Name) and isinstance(n.ctx, (ast.Store, ast.Del)):
            out.add(n.id)
        elif isinstance(n, ast.ExceptHandler) and n.name:
            out.add(n.name)
    return out


def _simple_arg(a, cx=None):
    """a name, a literal, or a constant of an imported module (`signal.SIGKILL`): evaluating it again has no effect
    and gives the same value"""
    if isinstance(a, (ast.Name, ast.Constant)):
        return True
    if cx is not None and isinstance(a, ast.Attribute) and isinstance(a.value, ast.Name):
        root = a.value.id
        return root in cx.fi.module.imports and root not in cx.fi.locals and a.attr.isupper()
    return False


def ret_const(st):
    """(name, constant) when `st` is the inliner's `name = <constant>` for a helper's `return <constant>`"""
    if isinstance(st, ast.Assign) and getattr(st, "_inl_ret", None) and len(st.targets) == 1 \
            and isinstance(st.targets[0], ast.Name) and isinstance(st.value, ast.Constant):
        return (st.targets[0].id, st.value.value)
    return None


def _lower_returns(stmts, make, uid, callee, tail):
    """replace Return statements (not inside nested defs) in place; returns True when an InlineJump was needed"""
    jumped = False
    out = []
    n = len(stmts)
    for i, st in enumerate(stmts):
        is_tail = tail and i == n - 1
        if isinstance(st, ast.Return):
            made = make(st)
            out.extend(made)
            if not is_tail:
                j = ast.copy_location(InlineJump(), st)
                j.uid = uid
                j.callee = callee
                j._inl = True
                j.ret = ret_const(made[-1]) if made else None
                out.append(j)
                jumped = True
            continue
        if isinstance(st, (ast.FunctionDef, ast.AsyncFunctionDef, ast.ClassDef)):
            out.append(st)
            continue
        if isinstance(st, ast.If):
            a = _lower_returns(st.body, make, uid, callee, is_tail)
            st.body = a[0] or [ast.copy_location(ast.Pass(), st)]
            b = _lower_returns(st.orelse, make, uid, callee, is_tail)
            st.orelse = b[0]
            jumped |= a[1] | b[1]
        elif isinstance(st, (ast.For, ast.While)):
            a = _lower_returns(st.body, make, uid, callee, False)
            st.body = a[0] or [ast.copy_location(ast.Pass(), st)]
            b = _lower_returns(st.orelse, make, uid, callee, False)
            st.orelse = b[0]
            jumped |= a[1] | b[1]
        elif isinstance(st, ast.With):
            a = _lower_returns(st.body, make, uid, callee, False)
            st.body = a[0] or [ast.copy_location(ast.Pass(), st)]
            jumped |= a[1]
        elif isinstance(st, ast.Try):
            t_tail = is_tail and not st.finalbody
            a = _lower_returns(st.body, make, uid, callee, t_tail and not st.orelse)
            st.body = a[0] or [ast.copy_location(ast.Pass(), st)]
            jumped |= a[1]
            for h in st.handlers:
                b = _lower_returns(h.body, make, uid, callee, t_tail)
                h.body = b[0] or [ast.copy_location(ast.Pass(), st)]
                jumped |= b[1]
            c = _lower_returns(st.orelse, make, uid, callee, t_tail)
            st.orelse = c[0]
            d = _lower_returns(st.finalbody, make, uid, callee, False)
            st.finalbody = d[0]
            jumped |= c[1] | d[1]
        elif isinstance(st, InlineBlock):
            a = _lower_returns(st.body, make, uid, callee, False)
            st.body = a[0]
            jumped |= a[1]
        out.append(st)
    return out, jumped


def _expand(cx, st, call, parent, field, idx, h, recv):
    """-> list of statements replacing `st` (st itself, rewritten, is normally the last one), or None to decline"""
    a = h.node.args
    params = [x.arg for x in a.args]
    defaults = dict(zip(params[len(params) - len(a.defaults):], a.defaults))
    kwonly = [x.arg for x in a.kwonlyargs]
    for nm, d in zip(kwonly, a.kw_defaults):
        if d is not None:
            defaults[nm] = d
    actual = {}
    order = []
    pos = list(params)
    if h.cls is not None and not _is_static(h):
        if not pos:
            return None
        actual[pos[0]] = recv
        order.append(pos[0])
        pos = pos[1:]
    if len(call.args) > len(pos):
        return None
    for nm, arg in zip(pos, call.args):
        actual[nm] = arg
        order.append(nm)
    for k in call.keywords:
        if k.arg in actual or k.arg not in params + kwonly:
            return None
        actual[k.arg] = k.value
        order.append(k.arg)
    for nm in params + kwonly:
        if nm not in actual:
            if nm not in defaults:
                return None
            actual[nm] = defaults[nm]
            order.append(nm)
    body = copy.deepcopy(h.node.body)
    if body and isinstance(body[0], ast.Expr) and isinstance(body[0].value, ast.Constant) and isinstance(body[0].value.value, str):
        body = body[1:]
    # a helper that declares module names `global` (a memo, a counter) can only be expanded into a function of the same module
    # that does not use those names for something else; the declaration moves to the top of the caller
    gl = set(n_ for x in _own(h.node) if isinstance(x, ast.Global) for n_ in x.names)
    if gl:
        if h.module is not cx.fi.module or (gl & (set(cx.fi.params) | (set(cx.fi.locals) - cx.fi.global_names))):
            return None
        body = [x for x in body if not isinstance(x, ast.Global)]
        for x in body:
            for y in list(ast.walk(x)):
                for fld in ("body", "orelse", "finalbody"):
                    v = getattr(y, fld, None)
                    if isinstance(v, list) and any(isinstance(z, ast.Global) for z in v):
                        setattr(y, fld, [z for z in v if not isinstance(z, ast.Global)] or [ast.Pass()])
        missing = sorted(gl - cx.fi.global_names)
        if missing:
            decl = ast.Global(names=missing)
            ast.copy_location(decl, cx.fi.node.body[0])
            decl._inl = True
            k0 = 1 if (isinstance(cx.fi.node.body[0], ast.Expr) and isinstance(cx.fi.node.body[0].value, ast.Constant) and isinstance(cx.fi.node.body[0].value.value, str)) else 0
            cx.pending_globals = getattr(cx, "pending_globals", []) + [(k0, decl)]
            cx.fi._locals = None
    holder = ast.Module(body=body, type_ignores=[])
    stored = _stores(holder) - gl
    cx.count += 1
    uid = "%s#%d" % (h.qualname, cx.count)
    subst, ren, binds = {}, {}, []
    cx.free = set()
    if isinstance(st, ast.Assign) and parent is st and field == "value" and len(st.targets) == 1 \
            and _name_target(st.targets[0]):
        tnames = _name_target(st.targets[0])
        # the old value of T is dead across the call (overwritten at every normal exit) unless an argument reads it or
        # an enclosing handler/finally of the caller could observe it after the helper raised: then the callee's
        # local of the same name may simply be T
        argnames = set(n.id for x in list(call.args) + [k.value for k in call.keywords] for n in ast.walk(x) if isinstance(n, ast.Name))
        in_try = set(n.id for t in cx.tries for part in ([hh for hh in t.handlers] + t.finalbody)
                     for n in ast.walk(part) if isinstance(n, ast.Name))
        cx.free = set(T for T in tnames if T not in argnames and T not in in_try)
    for nm in order:
        arg = actual[nm]
        if nm not in stored and _simple_arg(arg, cx):
            if not (isinstance(arg, ast.Name) and arg.id == nm):
                subst[nm] = arg
            continue
        new = cx.fresh(nm) if not (isinstance(arg, ast.Name) and arg.id == nm and nm not in stored) else nm
        ren[nm] = new
        b = ast.Assign(targets=[ast.Name(id=new, ctx=ast.Store())], value=copy.deepcopy(arg), lineno=call.lineno)
        ast.copy_location(b, call)
        ast.fix_missing_locations(b)
        b._inl = True
        binds.append(b)
    for nm in sorted(stored):
        if nm not in ren and nm not in actual:
            new = cx.fresh(nm)
            if new != nm:
                ren[nm] = new
    # a substituted argument name must not be captured by a (renamed) callee local
    for nm, arg in subst.items():
        if isinstance(arg, ast.Name) and (arg.id in stored and ren.get(arg.id, arg.id) == arg.id):
            ren[arg.id] = cx.fresh(arg.id)
    holder = _Renamer(ren, subst).visit(holder)
    body = holder.body
    for n in ast.walk(holder):
        n._inl = True

    callee = h.qualname
    residual = [st]
    whole_value = (parent is st and field == "value" and idx is None)

    def mk_assign(target_factory):
        def make(ret):
            v = ret.value if ret.value is not None else ast.copy_location(ast.Constant(value=None), ret)
            t0 = target_factory()
            if ast.dump(_as_load(t0)) == ast.dump(_as_load(v)):
                return []
            if isinstance(t0, ast.Tuple) and isinstance(v, ast.Tuple) and len(t0.elts) == len(v.elts) \
                    and all(isinstance(x, ast.Name) for x in t0.elts) and not any(isinstance(x, ast.Starred) for x in v.elts):
                tn = set(x.id for x in t0.elts)
                rhs_names = [set(n.id for n in ast.walk(x) if isinstance(n, ast.Name)) for x in v.elts]
                # `a, b = x, y` is `a = x; b = y` when no later right-hand side reads an earlier target
                if all(not (rhs_names[i] & set(t.id for t in t0.elts[:i])) for i in range(len(v.elts))):
                    out = []
                    for tt, vv in zip(t0.elts, v.elts):
                        if isinstance(vv, ast.Name) and vv.id == tt.id:
                            continue
                        a1 = ast.copy_location(ast.Assign(targets=[tt], value=vv), ret)
                        ast.fix_missing_locations(a1)
                        a1._inl = True
                        a1._inl_ret = uid
                        out.append(a1)
                    return out
            s = ast.copy_location(ast.Assign(targets=[target_factory()], value=v), ret)
            ast.fix_missing_locations(s)
            s._inl = True
            s._inl_ret = uid
            return [s]
        return make

    if isinstance(st, ast.Return) and whole_value:
        # the caller returns what the helper returns: the helper's returns are the caller's
        out = binds + body
        if _falls_through(body):
            r = ast.copy_location(ast.Return(value=ast.copy_location(ast.Constant(value=None), st)), st)
            r._inl = True
            out.append(r)
        return out
    if isinstance(st, ast.Expr) and whole_value:
        def make(ret):
            if ret.value is None or isinstance(ret.value, (ast.Constant, ast.Name)):
                return []
            s = ast.copy_location(ast.Expr(value=ret.value), ret)
            s._inl = True
            return [s]
        new_body, jumped = _lower_returns(body, make, uid, callee, True)
        residual = []
    elif isinstance(st, ast.Assign) and whole_value and len(st.targets) == 1 and _simple_target(st.targets[0], cx, h):
        tgt = st.targets[0]
        make = mk_assign(lambda: copy.deepcopy(tgt))
        new_body, jumped = _lower_returns(body, make, uid, callee, True)
        if _falls_through(new_body) and _may_fall_off(body_was=h.node.body):
            s = ast.copy_location(ast.Assign(targets=[copy.deepcopy(tgt)], value=ast.Constant(value=None)), st)
            ast.fix_missing_locations(s)
            s._inl = True
            s._inl_ret = uid
            new_body = new_body + [s]
        residual = []
    else:
        tmp = cx.fresh("__ret_%s" % h.name.strip("_"))
        make = mk_assign(lambda: ast.Name(id=tmp, ctx=ast.Store()))
        new_body, jumped = _lower_returns(body, make, uid, callee, True)
        if _may_fall_off(body_was=h.node.body):
            s = ast.copy_location(ast.Assign(targets=[ast.Name(id=tmp, ctx=ast.Store())], value=ast.Constant(value=None)), st)
            ast.fix_missing_locations(s)
            s._inl = True
            s._inl_ret = uid
            new_body = new_body + [s]
        _set(parent, field, idx, ast.copy_location(ast.Name(id=tmp, ctx=ast.Load()), call))
        st._inl = True
        for anc in ast.walk(st):
            pass
    if jumped:
        blk = ast.copy_location(InlineBlock(body=new_body), st)
        blk.uid = uid
        blk.callee = callee
        blk._inl = True
        return binds + [blk] + residual
    return binds + new_body + residual


def _may_fall_off(body_was):
    return _falls_through(body_was)


def _name_target(t):
    """names of a Name / flat tuple-of-Names assignment target, else None"""
    if isinstance(t, ast.Name):
        return [t.id]
    if isinstance(t, (ast.Tuple, ast.List)) and t.elts and all(isinstance(x, ast.Name) for x in t.elts):
        return [x.id for x in t.elts]
    return None


def _as_load(e):
    e = copy.deepcopy(e)
    for n in ast.walk(e):
        if hasattr(n, "ctx"):
            n.ctx = ast.Load()
    return e


def _simple_target(t, cx, h):
    if _name_target(t):
        return True
    if isinstance(t, ast.Attribute) and isinstance(t.value, ast.Name):
        # `self.x = helper()`: assigning at the return point is equivalent unless the helper wraps its return in
        # finally/with clauses that could observe the attribute
        for n in _own(h.node):
            if isinstance(n, ast.Try) and n.finalbody:
                return False
            if isinstance(n, ast.With):
                return False
        return True
    return False


def _split_and(cx, st):
    """`if a and h(): B`  ->  `if a: if h(): B`  (no else branch) when a helper call sits in a later operand"""
    if not (isinstance(st, ast.If) and not st.orelse and isinstance(st.test, ast.BoolOp) and isinstance(st.test.op, ast.And)):
        return st
    vals = st.test.values
    for i in range(1, len(vals)):
        probe = ast.If(test=vals[i], body=[], orelse=[])
        x = _first_call(probe)
        if x is not None and _resolve_helper(cx, x[0]) is not None:
            rest = vals[i] if i == len(vals) - 1 else ast.copy_location(ast.BoolOp(op=ast.And(), values=vals[i:]), st.test)
            inner = ast.copy_location(ast.If(test=rest, body=st.body, orelse=[]), st)
            first = vals[0] if i == 1 else ast.copy_location(ast.BoolOp(op=ast.And(), values=vals[:i]), st.test)
            outer = ast.copy_location(ast.If(test=first, body=[inner], orelse=[]), st)
            inner._inl = outer._inl = True
            cx.changed = True
            return outer
    return st


def _process_body(cx, stmts):
    out = []
    for st in stmts:
        if isinstance(st, (ast.FunctionDef, ast.AsyncFunctionDef, ast.ClassDef)):
            out.append(st)
            continue
        st = _split_and(cx, st)
        if isinstance(st, ast.While) and not st.orelse:
            # `while h(): B`  ->  `while True: if not h(): break; B`   (h a helper: its body is expanded at the loop top)
            probe = ast.If(test=st.test, body=[], orelse=[])
            x = _first_call(probe)
            if x is not None and _resolve_helper(cx, x[0]) is not None:
                brk = ast.copy_location(ast.Break(), st)
                guard = ast.copy_location(ast.If(test=ast.copy_location(ast.UnaryOp(op=ast.Not(), operand=st.test), st.test), body=[brk], orelse=[]), st)
                guard._inl = brk._inl = True
                st.test = ast.copy_location(ast.Constant(value=True), st.test)
                st.body = [guard] + st.body
                cx.changed = True
        is_try = isinstance(st, ast.Try) and (st.handlers or st.finalbody)
        for f in ("body", "orelse", "finalbody"):
            v = getattr(st, f, None)
            if isinstance(v, list) and v and isinstance(v[0], ast.stmt):
                if is_try and f == "body":
                    cx.tries.append(st)
                setattr(st, f, _process_body(cx, v))
                if is_try and f == "body":
                    cx.tries.pop()
        for hd in getattr(st, "handlers", []) or []:
            hd.body = _process_body(cx, hd.body)
        cur = [st]
        guard = 0
        while guard < 8:
            guard += 1
            last = cur[-1]
            if last is not st:
                break
            x = _first_helper_call(cx, st)
            if x is None:
                break
            call, parent, field, idx = x
            r = _resolve_helper(cx, call)
            if r is None:
                break
            h, recv = r
            rep = _expand(cx, st, call, parent, field, idx, h, recv)
            if rep is None:
                break
            cx.changed = True
            cx.inlined.append(h.qualname)
            cur = cur[:-1] + rep
        out.extend(cur)
    return out


def normalise(repo):
    """Rewrite the module trees of `repo` in place; returns {helper qualname: times expanded} (empty: nothing done)."""
    base = baseline()
    helpers = {}
    for q, fi in list(repo._funcs.items()):
        if (q not in base or q in ALWAYS_EXPAND) and eligible(fi):
            helpers[q] = fi
    if not helpers:
        return {}
    done = {}
    # leaves first: a helper is expanded into its callers only once it contains no expandable helper call itself
    force = False
    for _round in range(6):
        changed_any = False
        pending = {}
        for q, h in helpers.items():
            cx = _Ctx(repo, h, helpers)
            pending[q] = any(_resolve_helper(cx, c) is not None for c in _own(h.node) if isinstance(c, ast.Call))
        # a helper whose own helper calls sit where they cannot be expanded (conditional expression, comprehension,
        # recursion) would stay pending forever: once nothing moves any more it is expanded as it is
        ready = {q: h for q, h in helpers.items() if force or not pending[q]}
        if not ready:
            if force:
                break
            force = True
            continue
        for fi in list(repo._funcs.values()):
            if fi.parent is not None and False:
                continue
            cx = _Ctx(repo, fi, ready)
            fi.node.body = _process_body(cx, fi.node.body)
            for k0, decl in getattr(cx, "pending_globals", []):
                fi.node.body.insert(k0, decl)
            if cx.changed:
                changed_any = True
                fi._locals = None
                fi._aliases = None
                fi._cfg = None
                for q in cx.inlined:
                    done[q] = done.get(q, 0) + 1
        if not changed_any:
            if force or not any(pending.values()):
                break
            force = True
    return done


# --------------------------------------------------------------------------- alias normalisation
def _chain(e):
    parts = []
    while isinstance(e, ast.Attribute):
        parts.append(e.attr)
        e = e.value
    if isinstance(e, ast.Name):
        parts.append(e.id)
        return list(reversed(parts))
    return None


INIT_PHASE = ("__init__", "init_process", "init", "setup", "init_signals")


def _storers(repo):
    """attribute name -> set of FuncInfo that assign it on some object (`x.NAME = ..`, `+=`, `del`, for-target,
    setattr with a literal name); '*' when a setattr with a computed name exists"""
    out = {}
    for fi in repo._funcs.values():
        for n in _own(fi.node):
            if isinstance(n, ast.Attribute) and isinstance(n.ctx, (ast.Store, ast.Del)):
                out.setdefault(n.attr, set()).add(fi)
            elif isinstance(n, ast.Call) and isinstance(n.func, ast.Name) and n.func.id in ("setattr", "delattr") and len(n.args) >= 2:
                if isinstance(n.args[1], ast.Constant):
                    out.setdefault(n.args[1].value, set()).add(fi)
                else:
                    out.setdefault("*", set()).add(fi)
    return out


def _name_reach(repo):
    """name-level call graph: function -> set of FuncInfo reachable through calls, a call `x.m(..)`/`m(..)` reaching
    every function of the package named m (an over-approximation that needs no receiver types)"""
    by_name = {}
    for fi in repo._funcs.values():
        by_name.setdefault(fi.name, []).append(fi)
    direct = {}
    for fi in repo._funcs.values():
        names = set()
        for n in _own(fi.node):
            if isinstance(n, ast.Call):
                if isinstance(n.func, ast.Attribute):
                    names.add(n.func.attr)
                elif isinstance(n.func, ast.Name):
                    names.add(n.func.id)
            elif isinstance(n, (ast.FunctionDef, ast.AsyncFunctionDef)) and n is not fi.node:
                names.add(n.name)
        direct[fi] = set(x for nm in names for x in by_name.get(nm, []))
    memo = {}

    def reach(fi):
        if fi in memo:
            return memo[fi]
        seen = set()
        stack = [fi]
        while stack:
            x = stack.pop()
            for y in direct.get(x, ()):
                if y not in seen:
                    seen.add(y)
                    stack.append(y)
        memo[fi] = seen
        return seen
    return reach


def mutable_fields(repo):
    return set(_storers(repo))


class _AliasExpander(ast.NodeTransformer):
    def __init__(self, table):
        self.table = table

    def visit_Name(self, n):
        if isinstance(n.ctx, ast.Load) and n.id in self.table:
            new = copy.deepcopy(self.table[n.id])
            for x in ast.walk(new):
                ast.copy_location(x, n)
                x._inl = True
            return new
        return n

    def visit_FunctionDef(self, n):
        return n

    visit_AsyncFunctionDef = visit_FunctionDef
    visit_ClassDef = visit_FunctionDef

    def visit_Lambda(self, n):
        shadow = set(a.arg for a in n.args.args + n.args.kwonlyargs)
        if shadow & set(self.table):
            return n
        return self.generic_visit(n)


def expand_aliases(repo):
    """`lock = self._lock` ... `with lock:`  ->  `with self._lock:` for locals assigned exactly once from a chain of
    effectively-final attributes rooted at a parameter that is never rebound: every rule sees the object a statement
    works on, not the name a refactoring gave it.  Returns the number of functions rewritten."""
    storers = _storers(repo)
    if "*" in storers:
        return 0
    reach = _name_reach(repo)

    def final_in(fi, attr):
        """no assignment to `.attr` can run between two statements of fi: every assigning function is an
        initialisation-phase method that fi neither is nor (transitively, by name) calls"""
        ss = storers.get(attr, ())
        if not ss:
            return True
        r = None
        for s_ in ss:
            if s_.name == "__init__" and s_ is not fi:
                continue
            if s_.name not in INIT_PHASE or s_ is fi:
                return False
            if r is None:
                r = reach(fi)
            if s_ in r:
                return False
        return True
    count = 0
    for fi in list(repo._funcs.values()):
        node = fi.node
        stores = {}
        for n in _own(node):
            if isinstance(n, ast.Name) and isinstance(n.ctx, (ast.Store, ast.Del)):
                stores[n.id] = stores.get(n.id, 0) + 1
            elif isinstance(n, ast.ExceptHandler) and n.name:
                stores[n.name] = stores.get(n.name, 0) + 1
        params = set(fi.params)
        table = {}
        for n in _own(node):
            if isinstance(n, ast.Assign) and len(n.targets) == 1 and isinstance(n.targets[0], ast.Name) \
                    and isinstance(n.value, ast.Attribute):
                nm = n.targets[0].id
                ch = _chain(n.value)
                if ch is None or stores.get(nm) != 1 or nm in params:
                    continue
                root = ch[0]
                if root not in params or stores.get(root):
                    continue
                if not all(final_in(fi, a) for a in ch[1:]):
                    continue
                if nm in (x for x in ch):
                    continue
                table[nm] = n.value
        if not table:
            continue
        # nested functions that rebind or read the alias keep their own view: skip such aliases
        for sub in _own(node):
            if isinstance(sub, (ast.FunctionDef, ast.AsyncFunctionDef, ast.Lambda, ast.ClassDef)):
                for x in ast.walk(sub):
                    if isinstance(x, ast.Name) and x.id in table:
                        table.pop(x.id, None)
        if not table:
            continue
        ex = _AliasExpander(table)
        node.body = [ex.visit(st) for st in node.body]
        fi._locals = fi._aliases = fi._cfg = None
        count += 1
    return count


# --------------------------------------------------------------------------- single-use temporaries
def _eval_events(e):
    """('call'|'name'|'stop', node) in evaluation order for the unconditionally evaluated part of an expression"""
    if e is None:
        return
    if isinstance(e, ast.Name):
        if isinstance(e.ctx, ast.Load):
            yield ("name", e)
        return
    if isinstance(e, ast.Constant):
        return
    if isinstance(e, ast.Call):
        yield from _eval_events(e.func)
        for a in e.args:
            yield from _eval_events(a)
        for k in e.keywords:
            yield from _eval_events(k.value)
        yield ("call", e)
        return
    if isinstance(e, ast.Attribute):
        yield from _eval_events(e.value)
        return
    if isinstance(e, ast.Starred):
        yield from _eval_events(e.value)
        return
    if isinstance(e, ast.UnaryOp):
        yield from _eval_events(e.operand)
        return
    if isinstance(e, ast.BinOp):
        yield from _eval_events(e.left)
        yield from _eval_events(e.right)
        return
    if isinstance(e, ast.Compare):
        yield from _eval_events(e.left)
        yield from _eval_events(e.comparators[0])
        if len(e.comparators) > 1:
            yield ("stop", e)
        return
    if isinstance(e, ast.BoolOp):
        yield from _eval_events(e.values[0])
        yield ("stop", e)
        return
    if isinstance(e, ast.IfExp):
        yield from _eval_events(e.test)
        yield ("stop", e)
        return
    if isinstance(e, ast.Subscript):
        yield from _eval_events(e.value)
        yield from _eval_events(e.slice)
        return
    if isinstance(e, ast.Slice):
        yield from _eval_events(e.lower)
        yield from _eval_events(e.upper)
        yield from _eval_events(e.step)
        return
    if isinstance(e, (ast.Tuple, ast.List, ast.Set)):
        for x in e.elts:
            yield from _eval_events(x)
        return
    if isinstance(e, ast.Dict):
        for k, v in zip(e.keys, e.values):
            yield from _eval_events(k)
            yield from _eval_events(v)
        return
    if isinstance(e, ast.JoinedStr):
        for v in e.values:
            if isinstance(v, ast.FormattedValue):
                yield from _eval_events(v.value)
        return
    if isinstance(e, ast.keyword):
        yield from _eval_events(e.value)
        return
    yield ("stop", e)


def _header_exprs(st):
    if isinstance(st, (ast.Expr, ast.Return)):
        return [st.value]
    if isinstance(st, ast.Assign):
        # the value is evaluated first; subscripts/attributes of the targets after it
        return [st.value] + [t for t in st.targets if not isinstance(t, ast.Name)]
    if isinstance(st, (ast.AugAssign, ast.AnnAssign)):
        return [st.value] if isinstance(st.target, ast.Name) else []
    if isinstance(st, (ast.If, ast.Assert)):
        return [st.test]
    if isinstance(st, ast.For):
        return [st.iter]
    if isinstance(st, ast.With):
        return [st.items[0].context_expr] if st.items else []
    if isinstance(st, ast.Raise):
        return [st.exc]
    return []


class _Subst(ast.NodeTransformer):
    def __init__(self, target, value):
        self.target, self.value = target, value

    def visit_Name(self, n):
        if n is self.target:
            return self.value
        return n


def forward_temps(repo):
    """`t = E` immediately followed by the only statement that reads `t` (once, before that statement evaluates any
    call) is folded into it.  Both "introduce explaining variable" and "inline temporary" lead to the same tree, so a
    rule never depends on which of the two spellings the code uses.  Returns the number of folds."""
    total = 0
    for fi in list(repo._funcs.values()):
        node = fi.node
        if not isinstance(node, (ast.FunctionDef, ast.AsyncFunctionDef)):
            continue
        changed = True
        rounds = 0
        while changed and rounds < 6:
            changed = False
            rounds += 1
            stores, loads, hidden = {}, {}, set()
            for n in ast.walk(node):
                if isinstance(n, ast.Name):
                    if isinstance(n.ctx, ast.Load):
                        loads.setdefault(n.id, []).append(n)
                    else:
                        stores[n.id] = stores.get(n.id, 0) + 1
                elif isinstance(n, ast.ExceptHandler) and n.name:
                    stores[n.name] = stores.get(n.name, 0) + 2
                elif isinstance(n, (ast.Global, ast.Nonlocal)):
                    hidden |= set(n.names)
                elif isinstance(n, ast.arg):
                    stores[n.arg] = stores.get(n.arg, 0) + 2
            # names read inside nested scopes / comprehensions are evaluated at another time
            for n in ast.walk(node):
                if isinstance(n, (ast.Lambda, ast.ListComp, ast.SetComp, ast.DictComp, ast.GeneratorExp)) or \
                        (isinstance(n, (ast.FunctionDef, ast.AsyncFunctionDef, ast.ClassDef)) and n is not node):
                    for x in ast.walk(n):
                        if isinstance(x, ast.Name):
                            hidden.add(x.id)

            def fold(stmts):
                nonlocal changed, total
                i = 0
                while i < len(stmts) - 1:
                    s1, s2 = stmts[i], stmts[i + 1]
                    if isinstance(s1, ast.Assign) and len(s1.targets) == 1 and isinstance(s1.targets[0], ast.Name):
                        x = s1.targets[0].id
                        if stores.get(x) == 1 and len(loads.get(x, ())) == 1 and x not in hidden and not (x.startswith("__ret_") and isinstance(s2, (ast.If, ast.While))):
                            use = loads[x][0]
                            ok = False
                            done = False
                            for h in _header_exprs(s2):
                                for kind, n in _eval_events(h):
                                    if kind == "name" and n is use:
                                        ok = True
                                        done = True
                                        break
                                    if kind in ("call", "stop"):
                                        done = True
                                        break
                                if done:
                                    break
                            if ok:
                                val = s1.value
                                for h in ast.walk(val):
                                    h._inl = True
                                stmts[i + 1] = _Subst(use, val).visit(s2)
                                for a in ast.walk(stmts[i + 1]):
                                    pass
                                stmts[i + 1]._inl = True
                                del stmts[i]
                                changed = True
                                total += 1
                                loads[x] = []
                                continue
                    i += 1
                for st in stmts:
                    if isinstance(st, (ast.FunctionDef, ast.AsyncFunctionDef, ast.ClassDef)):
                        continue
                    for f in ("body", "orelse", "finalbody"):
                        v = getattr(st, f, None)
                        if isinstance(v, list) and v and isinstance(v[0], ast.stmt):
                            fold(v)
                    for hd in getattr(st, "handlers", []) or []:
                        fold(hd.body)
            fold(node.body)
        if rounds > 1 or total:
            fi._locals = fi._aliases = fi._cfg = None
    return total
