"""A4: control-flow graph per function, hand-built over the statement kinds gunicorn uses.

* every atomic test of an `if`/`while`/`assert` condition is its own node with a
  'true' and a 'false' edge (BoolOp, `not`, chained comparisons are decomposed);
* `try/except/else/finally`: exception edges ('exc') from every statement that may
  raise to the matching handlers (class-matched for explicit raises, conservative
  otherwise); `finally` bodies are duplicated per continuation kind (normal, return,
  break/continue, exception);
* `sys.exit` is `raise SystemExit`; `os._exit`/`os.exec*` end in NORETURN;
  `util.reraise` raises.
Queries: reachability with removed nodes/edges (gives dominance, edge dominance,
must-pass-through), witnesses paths for reports.
"""
import ast
from collections import deque

from .index import AnalysisError, builtin_exc
from .inline import InlineBlock, InlineJump, ret_const

NORETURN_CALLS = {"os._exit", "os.execvpe", "os.execv", "os.execve", "os.execvp", "os.execl",
                  "os.execlp", "os.execle", "os.abort"}
RAISING_CALLS = {"sys.exit": "SystemExit", "gunicorn.util.reraise": None, "exit": "SystemExit"}


class Node:
    __slots__ = ("id", "kind", "ast", "stmt", "out", "inn", "cover", "raised", "copy", "always_raises")

    def __init__(self, id, kind, astnode=None, stmt=None):
        self.id = id
        self.kind = kind       # entry exit raise noreturn stmt test for with with_exit handler join
        self.ast = astnode
        self.stmt = stmt if stmt is not None else astnode
        self.out = []          # [(node, label)]
        self.inn = []
        self.cover = []        # expression roots evaluated by this node
        self.raised = None     # explicit exception class name for raise nodes
        self.copy = None       # finally-copy tag
        self.always_raises = False

    def __repr__(self):
        return "<%s#%d %s>" % (self.kind, self.id, self.text[:60])

    @property
    def text(self):
        if self.ast is None:
            return self.kind
        try:
            if self.kind == "for":
                return "for %s in %s" % (ast.unparse(self.ast.target), ast.unparse(self.ast.iter))
            if self.kind == "with":
                return "with " + ", ".join(ast.unparse(i) for i in self.ast.items)
            if self.kind == "handler":
                return "except %s" % (ast.unparse(self.ast.type) if self.ast.type is not None else "")
            if self.kind == "with_exit":
                return "<end with>"
            s = ast.unparse(self.ast)
            return s.split("\n")[0] if self.kind != "stmt" else " ".join(s.split())
        except Exception:
            return self.kind

    @property
    def lineno(self):
        return getattr(self.ast, "lineno", 0)

    def succ(self, label=None):
        return [n for n, l in self.out if label is None or l == label]


class _TryBody:
    def __init__(self, trynode, handlers, outer):
        self.trynode = trynode
        self.handlers = handlers      # [(types or None, handler Node)]
        self.outer = outer            # stack below this frame


class _TryRest:                        # inside handler/else of a try that has a finally
    def __init__(self, trynode, outer):
        self.trynode = trynode
        self.outer = outer


class _Loop:
    def __init__(self, head):
        self.head = head
        self.breaks = []


class _Inline:
    def __init__(self, block):
        self.block = block
        self.exits = []


class _WithSwallow:
    def __init__(self, exit_node):
        self.exit_node = exit_node


class CFG:
    def __init__(self, finfo, repo=None):
        self.func = finfo
        self.nodes = []
        self.entry = self._new("entry")
        self.exit = self._new("exit")
        self.raise_exit = self._new("raise")
        self.noreturn = self._new("noreturn")
        self._by_ast = {}
        self._cover_map = None
        self._fin_exc = {}

    def _new(self, kind, astnode=None, stmt=None):
        n = Node(len(self.nodes), kind, astnode, stmt)
        self.nodes.append(n)
        if astnode is not None:
            self._by_ast.setdefault(id(astnode), []).append(n)
        elif stmt is not None:
            self._by_ast.setdefault(id(stmt), []).append(n)
        return n

    def _edge(self, a, b, label):
        for n, l in a.out:
            if n is b and l == label:
                return
        a.out.append((b, label))
        b.inn.append((a, label))

    # ------------------------------------------------------------- queries
    def nodes_of(self, astnode):
        """CFG nodes created for this AST statement/test (several if inside a finally)."""
        return list(self._by_ast.get(id(astnode), []))

    def nodes_containing(self, astnode):
        """CFG nodes whose evaluated expressions contain `astnode`."""
        if self._cover_map is None:
            cm = {}
            for n in self.nodes:
                for root in n.cover:
                    for sub in ast.walk(root):
                        cm.setdefault(id(sub), []).append(n)
            self._cover_map = cm
        return list(self._cover_map.get(id(astnode), []))

    def tests(self):
        return [n for n in self.nodes if n.kind == "test"]

    def stmts(self, types=None):
        return [n for n in self.nodes if n.kind == "stmt" and (types is None or isinstance(n.ast, types))]

    def reachable(self, starts, without_nodes=(), without_edges=(), follow_exc=True, stop=None):
        """Set of nodes reachable from `starts` (nodes, or (node,label) edges)."""
        wn = set(x.id for x in without_nodes)
        we = set((a.id, l) for a, l in without_edges)
        seen = set()
        dq = deque()
        for s in starts:
            if isinstance(s, tuple):
                a, l = s
                if (a.id, l) in we:
                    continue
                for b, l2 in a.out:
                    if l2 == l and b.id not in wn and b.id not in seen:
                        seen.add(b.id)
                        dq.append(b)
            else:
                if s.id not in wn and s.id not in seen:
                    seen.add(s.id)
                    dq.append(s)
        while dq:
            a = dq.popleft()
            if stop is not None and stop(a):
                continue
            for b, l in a.out:
                if l == "exc" and not follow_exc:
                    continue
                if (a.id, l) in we or b.id in wn or b.id in seen:
                    continue
                seen.add(b.id)
                dq.append(b)
        return set(self.nodes[i] for i in seen)

    def path(self, start, goals, without_nodes=(), without_edges=(), follow_exc=True):
        """Shortest witness path start -> any goal node, as list of nodes, or None."""
        wn = set(x.id for x in without_nodes)
        we = set((a.id, l) for a, l in without_edges)
        goals = set(g.id for g in goals)
        prev = {start.id: None}
        dq = deque([start])
        while dq:
            a = dq.popleft()
            if a.id in goals and a is not start:
                out = []
                cur = a.id
                while cur is not None:
                    out.append(self.nodes[cur])
                    cur = prev[cur]
                return list(reversed(out))
            for b, l in a.out:
                if l == "exc" and not follow_exc:
                    continue
                if (a.id, l) in we or b.id in wn or b.id in prev:
                    continue
                prev[b.id] = a.id
                dq.append(b)
        if start.id in goals:
            return [start]
        return None

    def dominates(self, a, b, follow_exc=True):
        """every path entry -> b passes a"""
        if a is b:
            return True
        return b not in self.reachable([self.entry], without_nodes=[a], follow_exc=follow_exc)

    def guarded(self, target, edges, follow_exc=True):
        """True iff `target` is unreachable from entry once all `edges` [(test,label)]
        are removed, i.e. every path to target takes none of them ... used inverted:
        pass the edges that must NOT be avoided."""
        return target not in self.reachable([self.entry], without_edges=edges, follow_exc=follow_exc)

    def must_pass(self, start, through, exits=None, follow_exc=True):
        """every path from start to one of `exits` (default: normal exit) passes a node in `through`.
        Returns None if it holds, else a witness path."""
        exits = exits or [self.exit]
        r = self.reachable([start], without_nodes=through, follow_exc=follow_exc)
        for e in exits:
            if e in r:
                return self.path(start, [e], without_nodes=through, follow_exc=follow_exc)
        return None

    def fmt_path(self, path, limit=12):
        items = [n.text for n in path if n.kind not in ("join",)]
        if len(items) > limit:
            items = items[:limit // 2] + ["..."] + items[-limit // 2:]
        return " -> ".join(items)


# =========================================================================== build
def build(finfo, repo=None):
    return _Builder(finfo).run()


class _Builder:
    def __init__(self, finfo):
        self.f = finfo
        self.g = CFG(finfo)
        from . import index as _ix
        self.repo = getattr(finfo.module, "_repo", None)

    # -- helpers
    def resolve(self, expr):
        if self.repo is not None:
            return self.repo.resolve(self.f.module, self.f, expr)
        return _dotted(expr)

    def run(self):
        fr = self.seq(self.f.node.body, [(self.g.entry, "next")], ())
        self.connect(fr, self.g.exit)
        return self.g

    def connect(self, frontier, node):
        for a, l in frontier:
            self.g._edge(a, node, l)

    def new_stmt(self, st, frontier, stack, kind="stmt", cover=None, stmt=None, may_raise=None):
        n = self.g._new(kind, st, stmt)
        n.cover = cover if cover is not None else ([st] if isinstance(st, ast.AST) else [])
        self.connect(frontier, n)
        if may_raise is None:
            may_raise = not _trivial(st)
        if may_raise:
            self.add_exc(n, stack, None)
        return n

    # -- exception routing
    def add_exc(self, node, stack, raised):
        for t in self.exc_targets(stack, raised):
            self.g._edge(node, t, "exc")

    def match(self, raised, types):
        """'yes' | 'maybe' | 'no' : does handler with `types` catch `raised`?"""
        if types is None:
            return "yes"
        if raised is None:
            for t in types:
                if t in ("BaseException",):
                    return "yes"
            for t in types:
                if t == "Exception":
                    return "yes"      # implicit raises are modelled as Exception instances
            return "maybe"
        res = "no"
        for t in types:
            if t is None:
                res = "maybe"
                continue
            if self.repo is not None:
                known_r = self.repo.has_cls(raised) or builtin_exc(raised) is not None
                known_t = self.repo.has_cls(t) or builtin_exc(t) is not None
                if self.repo.is_subclass(raised, t):
                    return "yes"
                if not (known_r and known_t):
                    res = "maybe"
            else:
                br, bt = builtin_exc(raised), builtin_exc(t)
                if br is not None and bt is not None:
                    if issubclass(br, bt):
                        return "yes"
                else:
                    res = "maybe"
        return res

    def exc_targets(self, stack, raised):
        out = []
        i = len(stack)
        while i > 0:
            i -= 1
            fr = stack[i]
            if isinstance(fr, _TryBody):
                stop = False
                for types, hnode in fr.handlers:
                    m = self.match(raised, types)
                    if m == "no":
                        continue
                    out.append(hnode)
                    if m == "yes":
                        stop = True
                        break
                if stop:
                    return out
                if fr.trynode.finalbody:
                    out.append(self.finally_exc(fr.trynode, fr.outer))
                    return out
            elif isinstance(fr, _TryRest):
                out.append(self.finally_exc(fr.trynode, fr.outer))
                return out
            elif isinstance(fr, _WithSwallow):
                out.append(fr.exit_node)
        out.append(self.g.raise_exit)
        return out

    def finally_exc(self, trynode, outer):
        key = id(trynode)
        if key not in self.g._fin_exc:
            j = self.g._new("join", None, trynode)
            j.copy = "finally-exc"
            self.g._fin_exc[key] = j
            fr = self.seq(trynode.finalbody, [(j, "next")], outer)
            for t in self.exc_targets(outer, None):
                for a, l in fr:
                    self.g._edge(a, t, "reraise" if l == "next" else l)
        return self.g._fin_exc[key]

    # -- abrupt completion routing through finally blocks
    def unwind(self, frontier, stack, until):
        """Run the finally bodies between the current position and frame index `until`
        (exclusive) -- returns the frontier after them."""
        i = len(stack)
        while i > until:
            i -= 1
            fr = stack[i]
            if isinstance(fr, (_TryBody, _TryRest)) and fr.trynode.finalbody:
                frontier = self.seq(fr.trynode.finalbody, frontier, fr.outer)
        return frontier

    def loop_index(self, stack):
        for i in range(len(stack) - 1, -1, -1):
            if isinstance(stack[i], _Loop):
                return i
        raise AnalysisError("break/continue outside loop in %s" % self.f.qualname)

    # -- statements
    def seq(self, stmts, frontier, stack):
        for st in stmts:
            if not frontier:
                # unreachable code is still indexed (so that lookups do not fail) but unconnected
                pass
            frontier = self.stmt(st, frontier, stack)
        return frontier

    def stmt(self, st, frontier, stack):
        g = self.g
        if isinstance(st, InlineBlock):
            fr = _Inline(st)
            out = self.seq(st.body, frontier, stack + (fr,))
            return out + fr.exits
        if isinstance(st, InlineJump):
            n = self.new_stmt(st, frontier, stack, may_raise=False)
            for i in range(len(stack) - 1, -1, -1):
                if isinstance(stack[i], _Inline) and stack[i].block.uid == st.uid:
                    break
            else:
                raise AnalysisError("inline jump without block in %s" % self.f.qualname)
            fr = self.unwind([(n, "next")], stack, i + 1)
            stack[i].exits.extend(fr)
            return []
        if isinstance(st, ast.If):
            t, f = self.cond(st.test, frontier, stack, st)
            a = self.seq(st.body, t, stack)
            b = self.seq(st.orelse, f, stack)
            return a + b
        if isinstance(st, ast.While):
            head = g._new("join", None, st)
            self.connect(frontier, head)
            loop = _Loop(head)
            st2 = stack + (loop,)
            t, f = self.cond(st.test, [(head, "next")], stack, st)
            body_out = self.seq(st.body, t, st2)
            for a, l in body_out:
                g._edge(a, head, l)
            out = self.seq(st.orelse, f, stack)
            return out + loop.breaks
        if isinstance(st, (ast.For, ast.AsyncFor)):
            head = self.new_stmt(st, frontier, stack, kind="for", cover=[st.iter, st.target])
            loop = _Loop(head)
            st2 = stack + (loop,)
            body_out = self.seq(st.body, [(head, "true")], st2)
            for a, l in body_out:
                g._edge(a, head, l)
            out = self.seq(st.orelse, [(head, "false")], stack)
            return out + loop.breaks
        if isinstance(st, (ast.With, ast.AsyncWith)):
            n = self.new_stmt(st, frontier, stack, kind="with", cover=[i.context_expr for i in st.items] +
                              [i.optional_vars for i in st.items if i.optional_vars is not None])
            ex = g._new("with_exit", st, st)
            swallow = any(not _plain_ctx(i.context_expr) for i in st.items)
            st2 = stack + ((_WithSwallow(ex),) if swallow else ())
            out = self.seq(st.body, [(n, "next")], st2)
            self.connect(out, ex)
            return [(ex, "next")]
        if isinstance(st, ast.Try) or (hasattr(ast, "TryStar") and isinstance(st, getattr(ast, "TryStar"))):
            handlers = []
            for h in st.handlers:
                hn = g._new("handler", h, h)
                hn.cover = [h.type] if h.type is not None else []
                handlers.append((self.handler_types(h), hn))
            body_stack = stack + (_TryBody(st, handlers, stack),)
            rest_stack = stack + ((_TryRest(st, stack),) if st.finalbody else ())
            out = self.seq(st.body, frontier, body_stack)
            out = self.seq(st.orelse, out, rest_stack)
            for (types, hn), h in zip(handlers, st.handlers):
                out = out + self.seq(h.body, [(hn, "next")], rest_stack)
            if st.finalbody:
                out = self.seq(st.finalbody, out, stack)
            return out
        if isinstance(st, ast.Return):
            n = self.new_stmt(st, frontier, stack)
            fr = self.unwind([(n, "next")], stack, 0)
            self.connect(fr, g.exit)
            return []
        if isinstance(st, ast.Raise):
            n = self.new_stmt(st, frontier, stack, may_raise=False)
            n.always_raises = True
            n.raised = self.raised_class(st, stack)
            self.add_exc(n, stack, n.raised)
            return []
        if isinstance(st, ast.Break):
            n = self.new_stmt(st, frontier, stack, may_raise=False)
            li = self.loop_index(stack)
            fr = self.unwind([(n, "next")], stack, li + 1)
            stack[li].breaks.extend(fr)
            return []
        if isinstance(st, ast.Continue):
            n = self.new_stmt(st, frontier, stack, may_raise=False)
            li = self.loop_index(stack)
            fr = self.unwind([(n, "next")], stack, li + 1)
            self.connect(fr, stack[li].head)
            return []
        if isinstance(st, ast.Assert):
            t, f = self.cond(st.test, frontier, stack, st)
            n = g._new("stmt", st, st)
            n.always_raises = True
            n.raised = "AssertionError"
            self.connect(f, n)
            self.add_exc(n, stack, "AssertionError")
            return t
        if isinstance(st, (ast.FunctionDef, ast.AsyncFunctionDef, ast.ClassDef)):
            n = self.new_stmt(st, frontier, stack, cover=list(getattr(st, "decorator_list", [])), may_raise=False)
            return [(n, "next")]
        if hasattr(ast, "Match") and isinstance(st, getattr(ast, "Match")):
            raise AnalysisError("match statement in %s is not modelled" % self.f.qualname)
        # simple statements
        n = self.new_stmt(st, frontier, stack)
        if isinstance(st, ast.Expr) and isinstance(st.value, ast.Call):
            q = self.call_q(st.value)
            if q in NORETURN_CALLS:
                g._edge(n, g.noreturn, "next")
                return []
            if q in RAISING_CALLS:
                n.always_raises = True
                n.raised = RAISING_CALLS[q]
                # replace the generic exc edges by typed ones
                for b, l in list(n.out):
                    if l == "exc":
                        n.out.remove((b, l))
                        b.inn.remove((n, l))
                self.add_exc(n, stack, n.raised)
                return []
        return [(n, "next")]

    def call_q(self, call):
        if self.repo is not None:
            return self.repo.call_target(self.f.module, self.f, call)
        return _dotted(call.func)

    def handler_types(self, h):
        if h.type is None:
            return None
        elts = h.type.elts if isinstance(h.type, ast.Tuple) else [h.type]
        out = []
        for e in elts:
            out.append(self.resolve(e))
        return out

    def raised_class(self, st, stack):
        if st.exc is None:
            # re-raise: type of the innermost enclosing handler when unique
            h = self.f.module.enclosing(st, ast.ExceptHandler)
            if h is not None and h.type is not None and not isinstance(h.type, ast.Tuple):
                return self.resolve(h.type)
            return None
        e = st.exc
        if isinstance(e, ast.Call):
            e = e.func
        q = self.resolve(e)
        if q is None:
            return None
        if self.repo is not None and (self.repo.has_cls(q) or builtin_exc(q) is not None):
            return q
        if builtin_exc(q) is not None:
            return q
        return None

    # -- conditions
    def cond(self, e, frontier, stack, stmt):
        if isinstance(e, ast.BoolOp):
            if isinstance(e.op, ast.And):
                fs = []
                t = frontier
                for v in e.values:
                    t, f = self.cond(v, t, stack, stmt)
                    fs += f
                return t, fs
            else:
                ts = []
                f = frontier
                for v in e.values:
                    t, f = self.cond(v, f, stack, stmt)
                    ts += t
                return ts, f
        if isinstance(e, ast.UnaryOp) and isinstance(e.op, ast.Not):
            t, f = self.cond(e.operand, frontier, stack, stmt)
            return f, t
        if isinstance(e, ast.Compare) and len(e.ops) > 1:
            fs = []
            t = frontier
            left = e.left
            for op, right in zip(e.ops, e.comparators):
                c = ast.copy_location(ast.Compare(left=left, ops=[op], comparators=[right]), e)
                t, f = self.cond(c, t, stack, stmt)
                fs += f
                left = right
            return t, fs
        if isinstance(e, ast.Constant):
            if e.value:
                return frontier, []
            return [], frontier
        if isinstance(e, ast.Name) and e.id.startswith("__ret_"):
            # the boolean a helper returned, tested right after its expanded body: an exit that returned a literal
            # goes straight to the branch that literal selects (the expansion must not add infeasible paths)
            tt, ff, rest = [], [], []
            for a, l in frontier:
                r = None
                if l == "next" and a.kind == "stmt":
                    r = getattr(a.ast, "ret", None) if isinstance(a.ast, InlineJump) else ret_const(a.ast)
                if r is not None and r[0] == e.id:
                    (tt if r[1] else ff).append((a, l))
                else:
                    rest.append((a, l))
            if tt or ff:
                if rest:
                    t2, f2 = self._plain_test(e, rest, stack, stmt)
                    return t2 + tt, f2 + ff
                return tt, ff
        return self._plain_test(e, frontier, stack, stmt)

    def _plain_test(self, e, frontier, stack, stmt):
        n = self.g._new("test", e, stmt)
        n.cover = [e]
        self.connect(frontier, n)
        if not _trivial_expr(e):
            self.add_exc(n, stack, None)
        return [(n, "true")], [(n, "false")]


def _plain_ctx(e):
    """context managers that never swallow an exception from their body"""
    s = _dotted(e.func if isinstance(e, ast.Call) else e) or ""
    last = s.split(".")[-1].lower()
    return "lock" in last or s in ("open", "io.open", "os.fdopen") or last in ("lock", "rlock")


def _dotted(e):
    parts = []
    while isinstance(e, ast.Attribute):
        parts.append(e.attr)
        e = e.value
    if isinstance(e, ast.Name):
        parts.append(e.id)
        return ".".join(reversed(parts))
    return None


def _trivial_expr(e):
    if isinstance(e, (ast.Constant, ast.Name)):
        return True
    if isinstance(e, ast.UnaryOp) and isinstance(e.op, ast.Not):
        return _trivial_expr(e.operand)
    if isinstance(e, ast.Compare) and len(e.ops) == 1 and isinstance(e.ops[0], (ast.Is, ast.IsNot)):
        return _trivial_expr(e.left) and _trivial_expr(e.comparators[0])
    return False


def _trivial(st):
    """statements that cannot raise (no call, subscript, attribute access, arithmetic)"""
    if isinstance(st, (ast.Pass, ast.Break, ast.Continue, ast.Global, ast.Nonlocal, InlineJump)):
        return True
    if isinstance(st, ast.Expr):
        return isinstance(st.value, ast.Constant)
    if isinstance(st, ast.Assign):
        return all(isinstance(t, ast.Name) for t in st.targets) and _trivial_value(st.value)
    if isinstance(st, ast.Return):
        return st.value is None or _trivial_value(st.value)
    return False


def _trivial_value(v):
    if isinstance(v, (ast.Constant, ast.Name)):
        return True
    if isinstance(v, (ast.Tuple, ast.List)):
        return all(_trivial_value(x) for x in v.elts)
    if isinstance(v, ast.Dict):
        return not v.keys
    return False
