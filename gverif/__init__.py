"""gverif - static verification of behavioural properties of gunicorn.

Every verdict is computed from the source text of <repo>/gunicorn/**/*.py.
No gunicorn module is imported or executed by any deciding step.
"""

__all__ = ["index", "cfg", "astutil", "report"]
