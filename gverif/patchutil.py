"""Apply a unified diff (git format) to in-memory sources: used to turn the stored seeded / benign patches into
overlays over the working tree without touching the disk.  Exact context match with offset search; None when a hunk
no longer applies."""
import re

_HUNK = re.compile(r"^@@ -(\d+)(?:,(\d+))? \+(\d+)(?:,(\d+))? @@")


def parse(diff_text):
    """-> {path: [(old_start, [(tag, line)])]} with tag in ' ', '-', '+'"""
    files = {}
    cur = None
    hunk = None
    lines = diff_text.split("\n")
    i = 0
    while i < len(lines):
        ln = lines[i]
        if ln.startswith("--- "):
            nxt = lines[i + 1] if i + 1 < len(lines) else ""
            if nxt.startswith("+++ "):
                new = nxt[4:].split("\t")[0].strip()
                old = ln[4:].split("\t")[0].strip()
                path = new if new != "/dev/null" else old
                if path.startswith(("a/", "b/")):
                    path = path[2:]
                cur = files.setdefault(path, [])
                if new == "/dev/null":
                    files[path] = None
                    cur = None
                hunk = None
                i += 2
                continue
        m = _HUNK.match(ln)
        if m and cur is not None:
            hunk = (int(m.group(1)), [])
            cur.append(hunk)
        elif hunk is not None and ln[:1] in (" ", "-", "+"):
            hunk[1].append((ln[0], ln[1:]))
        elif hunk is not None and ln == "":
            # a blank context line whose leading space was stripped, or the end of the diff
            if i + 1 < len(lines) and (lines[i + 1][:1] in (" ", "-", "+") and not lines[i + 1].startswith(("--- ", "+++ "))):
                hunk[1].append((" ", ""))
        elif ln.startswith("\\"):
            pass
        elif ln.startswith("diff "):
            hunk = None
        i += 1
    return files


def apply_to(src, hunks):
    lines = src.split("\n")
    offset = 0
    for start, body in hunks:
        old = [l for t, l in body if t in (" ", "-")]
        new = [l for t, l in body if t in (" ", "+")]
        pos = start - 1 + offset if old else start + offset
        found = None
        for d in sorted(range(-60, 61), key=abs):
            p = pos + d
            if p < 0 or p + len(old) > len(lines):
                continue
            if lines[p:p + len(old)] == old:
                found = p
                break
        if found is None:
            return None
        lines[found:found + len(old)] = new
        offset += len(new) - len(old) + (found - pos)
    return "\n".join(lines)


def overlay(repo, diff_text):
    """{relpath: new source} for the package files the diff touches, or None when it does not apply"""
    files = parse(diff_text)
    out = {}
    for path, hunks in files.items():
        if not path.endswith(".py") or not path.startswith("gunicorn/"):
            continue
        if hunks is None:
            return None
        m = repo.by_relpath.get(path)
        src = m.src if m is not None else ""
        if m is None and any(t == "-" for _, b in hunks for t, _ in b):
            return None
        new = apply_to(src, hunks)
        if new is None:
            return None
        try:
            compile(new, path, "exec", dont_inherit=True)
        except SyntaxError:
            return None
        out[path] = new
    return out or None
