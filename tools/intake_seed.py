#!/usr/bin/env python3
"""Intake of a seeded breaking change written by an independent sub-agent.

usage: tools/intake_seed.py <property> <agent-worktree>/_seed/<i> [<id>]

Confirms in a *fresh* scratch worktree of /repo (outside /repo and /verif, removed afterwards):
  unchanged tree : demo exits 0
  patch applied  : test suite 260 passed, demo exits non-zero
then runs the property's static check against the patched scratch tree and stores
patch.diff, demo.py, notes.md and meta.json under /verif/seeded/<id>/.
"""
import json
import os
import shutil
import subprocess
import sys
import time

VERIF = os.path.dirname(os.path.dirname(os.path.abspath(__file__)))
sys.path.insert(0, VERIF)


def sh(cmd, cwd, timeout=600):
    env = dict(os.environ)
    env["PYTHONPATH"] = cwd
    env["PYTHONDONTWRITEBYTECODE"] = "1"
    r = subprocess.run(cmd, cwd=cwd, shell=True, capture_output=True, text=True, timeout=timeout, env=env)
    return r.returncode, (r.stdout + r.stderr)


def main():
    prop, src = sys.argv[1], sys.argv[2].rstrip("/")
    idx = os.path.basename(src)
    sid = sys.argv[3] if len(sys.argv) > 3 else "%s-%s" % (prop, idx)
    for fn in ("patch.diff", "demo.py"):
        if not os.path.exists(os.path.join(src, fn)):
            print("missing %s in %s" % (fn, src))
            return 2
    wt = "/tmp/vt_%s_%d" % (sid, os.getpid())
    rc, out = sh("git -C /repo worktree add -q --detach %s HEAD" % wt, "/")
    if rc:
        print(out)
        return 2
    meta = {"id": sid, "property": prop, "source": "independent sub-agent given only the property text and a scratch worktree",
            "date": time.strftime("%Y-%m-%d"), "ran": []}
    try:
        os.makedirs(os.path.join(wt, "_seed"), exist_ok=True)
        shutil.copytree(src, os.path.join(wt, "_seed", idx))
        demo = "/venv/bin/python _seed/%s/demo.py" % idx
        rc0, out0 = sh(demo, wt, 120)
        meta["ran"].append({"cmd": demo + "   (unchanged tree)", "exit": rc0, "tail": out0.strip()[-300:]})
        rc, out = sh("git apply _seed/%s/patch.diff" % idx, wt)
        if rc:
            rc, out = sh("git apply -3 _seed/%s/patch.diff" % idx, wt)
            meta["ran"].append({"cmd": "git apply -3 (the base moved by later fix: commits)", "exit": rc})
        if rc:
            print("%s: patch does not apply:" % sid, out[:200])
            return 2
        rct, outt = sh("/venv/bin/python -m pytest -q -p no:cacheprovider --no-cov 2>&1 | tail -3", wt, 900)
        meta["ran"].append({"cmd": "pytest (patched)", "exit": rct, "tail": outt.strip()[-200:]})
        rc1, out1 = sh(demo, wt, 120)
        meta["ran"].append({"cmd": demo + "   (patched tree)", "exit": rc1, "tail": out1.strip()[-300:]})
        suite_ok = "260 passed" in outt and "failed" not in outt
        confirmed = rc0 == 0 and rc1 != 0 and suite_ok
        meta["confirmed"] = confirmed
        # static check against the patched tree
        from gverif.index import Repo
        from gverif.cli import run_property
        repo = Repo(wt)
        st, lines, ctx, err = run_property(prop, repo, "quick", 0, write=False)
        vio = [{"rule": v["rule"], "site": v["site"], "why": v["detail"][:300]} for v in ctx.violations]
        meta["static_check"] = {"status": st, "violations": vio, "error": err}
        meta["expect"] = "caught" if vio else "missed"
        notes = ""
        if os.path.exists(os.path.join(src, "notes.md")):
            notes = open(os.path.join(src, "notes.md")).read()
        meta["needs_to_manifest"] = notes.strip()[:1500]
        print("%s: confirmed=%s (demo unchanged=%s, suite_ok=%s, demo patched=%s)  static: %s" % (
            sid, confirmed, rc0, suite_ok, rc1, ("CAUGHT by " + ", ".join(sorted(set(v["rule"] for v in vio)))) if vio else ("MISSED" + (" (analysis error: %s)" % err[:80] if err else ""))))
        for v in vio[:3]:
            print("    %s %s" % (v["rule"], v["site"][:140]))
        if confirmed or "--force" in sys.argv:
            dst = os.path.join(VERIF, "seeded", sid)
            os.makedirs(dst, exist_ok=True)
            shutil.copy(os.path.join(src, "patch.diff"), dst)
            shutil.copy(os.path.join(src, "demo.py"), dst)
            if notes:
                open(os.path.join(dst, "notes.md"), "w").write(notes)
            json.dump(meta, open(os.path.join(dst, "meta.json"), "w"), indent=1)
        else:
            print("    NOT kept (not confirmed):", json.dumps(meta["ran"], indent=1)[:1500])
    finally:
        sh("git -C /repo worktree remove --force %s" % wt, "/")
        shutil.rmtree(wt, ignore_errors=True)
    return 0


if __name__ == "__main__":
    sys.exit(main())
