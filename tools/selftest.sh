#!/bin/sh
# full regression of the checker itself: setup command, the 20 quick checks on /repo, mutants/twins, both corpora
cd "$(dirname "$0")/.." || exit 2
rc=0
./bin/gverif selfcheck || { echo "SELFTEST: selfcheck failed"; rc=1; }
for i in 01 02 03 04 05 06 07 08 09 10 11 12 13 14 15 16 17 18 19 20; do
  ./bin/gverif check C$i --tier quick --no-evidence > /tmp/.gverif_selftest_$i.txt 2>&1 || { echo "SELFTEST: C$i quick exits non-zero"; tail -3 /tmp/.gverif_selftest_$i.txt; rc=1; }
  rm -f /tmp/.gverif_selftest_$i.txt
done
./bin/gverif mutants 2>&1 | grep "FAIL\|MISS" && rc=1
./bin/gverif seeded > /tmp/.gverif_selftest_seeded.txt 2>&1
m=$(grep -vc "CAUGHT" /tmp/.gverif_selftest_seeded.txt); [ "$m" = "0" ] || { echo "SELFTEST: $m seeded changes not reported"; rc=1; }
e=$(grep -c "ANALYSIS-ERROR" /tmp/.gverif_selftest_seeded.txt); [ "$e" = "0" ] || { echo "SELFTEST: $e seeded changes only fail closed"; rc=1; }
rm -f /tmp/.gverif_selftest_seeded.txt
b=$(./bin/gverif benign | grep -vc "silent$"); [ "$b" = "0" ] || { echo "SELFTEST: $b benign refactorings raise an alarm"; rc=1; }
[ $rc = 0 ] && echo "SELFTEST ok"
exit $rc
