#!/usr/bin/env python3
"""Freeze the function inventory of the reference tree (gverif/baseline_funcs.txt).

A function that is not in this list is treated by gverif.inline as a helper introduced by a later change and is
expanded into its callers before the rules run.  Re-run only when the reference tree itself moves (a new fix: commit
that adds a function)."""
import os, sys
sys.path.insert(0, os.path.dirname(os.path.dirname(os.path.abspath(__file__))))
from gverif.index import Repo
from gverif import inline
repo = Repo(sys.argv[1] if len(sys.argv) > 1 else "/repo", inline=False)
names = sorted(repo._funcs)
with open(inline.BASELINE_FILE, "w") as f:
    f.write("# functions of the reference tree (benoitc/gunicorn pinned commit + fix: commits); see tools/gen_baseline.py\n")
    for n in names:
        f.write(n + "\n")
print(len(names), "functions")
mn, sigs = inline.module_names_and_sigs(repo.modules)
with open(inline.BASELINE_NAMES_FILE, "w") as f:
    f.write("# module-level names (N module:NAME) and function signatures (S qualname(params)) of the reference tree; see tools/gen_baseline.py\n")
    for n in sorted(mn):
        f.write("N " + n + "\n")
    for q in sorted(sigs):
        f.write("S %s(%s)\n" % (q, ",".join(sigs[q])))
print(len(mn), "module-level names,", len(sigs), "signatures")
