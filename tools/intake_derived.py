#!/usr/bin/env python3
"""Intake of a derived benign twin: the honest clean-up of a round-3 seeded change with its one defect repaired
(written by an independent sub-agent that saw only the seed's patch, notes and demo).

usage: tools/intake_derived.py <seed id> [<agent worktree>]     (default worktree /tmp/wd_<seed id>)

Confirms in a fresh scratch worktree of /repo (removed afterwards): the repaired patch applies, the 260 tests pass and
the seed's own demo prints PASS; stores it as benign/derived-<seed id>/ and runs all twenty checks against it."""
import json, os, shutil, subprocess, sys
VERIF = os.path.dirname(os.path.dirname(os.path.abspath(__file__)))
sys.path.insert(0, VERIF)


def sh(cmd, cwd, timeout=900):
    env = dict(os.environ, PYTHONPATH=cwd, PYTHONDONTWRITEBYTECODE="1")
    r = subprocess.run(cmd, cwd=cwd, shell=True, capture_output=True, text=True, timeout=timeout, env=env)
    return r.returncode, r.stdout + r.stderr


def main():
    sid = sys.argv[1]
    src = sys.argv[2] if len(sys.argv) > 2 else "/tmp/wd_%s" % sid
    fixed = os.path.join(src, "_fixed", "patch.diff")
    if not os.path.exists(fixed):
        print("%s: no _fixed/patch.diff" % sid)
        return 2
    wt = "/tmp/vd_%s_%d" % (sid, os.getpid())
    rc, out = sh("git -C /repo worktree add -q --detach %s HEAD" % wt, "/")
    if rc:
        print(out)
        return 2
    try:
        rc, out = sh("git apply %s" % fixed, wt)
        if rc:
            print("%s: repaired patch does not apply: %s" % (sid, out[:200]))
            return 2
        rct, outt = sh("/venv/bin/python -m pytest -q -p no:cacheprovider --no-cov 2>&1 | tail -3", wt)
        # (the demo goes where its author had it -- <worktree>/_seed/<i>/demo.py --: several demos locate the tree under test
        # relative to their own path, and one level higher they would silently test the installed package instead)
        os.makedirs(os.path.join(wt, "_seed"), exist_ok=True)
        shutil.copytree(os.path.join(VERIF, "seeded", sid), os.path.join(wt, "_seed", "1"))
        rcd, outd = sh("/venv/bin/python _seed/1/demo.py", wt, 180)
        # control: the same demo must FAIL on the seed itself in the same place (otherwise its PASS above proves nothing)
        sh("git checkout -q -- gunicorn", wt)
        rcs, outs_ = sh("git apply _seed/1/patch.diff && /venv/bin/python _seed/1/demo.py", wt, 180)
        if rcs == 0:
            print("%s: WARNING the seed's demo does not fail on the seed when run from _seed/1/ (vacuous confirmation)" % sid)
        ok = "260 passed" in outt and "failed" not in outt and rcd == 0
        print("%s: suite %s, seed demo exit %s -> %s" % (sid, "ok" if "260 passed" in outt else outt.strip()[-80:], rcd, "confirmed" if ok else "NOT confirmed"))
        if not ok:
            print(outd.strip()[-400:])
            return 1
        dst = os.path.join(VERIF, "benign", "derived-" + sid)
        os.makedirs(dst, exist_ok=True)
        shutil.copy(fixed, dst)
        notes = os.path.join(src, "_fixed", "notes.md")
        head = "Derived from seeded change %s: the same clean-up with its one behavioural defect repaired by an independent sub-agent (suite 260 passed, the seed's demo prints PASS).\n\n" % sid
        open(os.path.join(dst, "notes.md"), "w").write(head + (open(notes).read() if os.path.exists(notes) else ""))
    finally:
        sh("git -C /repo worktree remove --force %s" % wt, "/")
        shutil.rmtree(wt, ignore_errors=True)
    return 0


if __name__ == "__main__":
    sys.exit(main())
