#!/usr/bin/env python3
"""Run all 20 checks against a behaviour-preserving refactoring (patch.diff applied to a scratch export of /repo/gunicorn).
Any VIOLATION or ANALYSIS-ERROR is a false alarm of the checker (or a behaviour change the author overlooked).
usage: tools/check_benign.py <dir with patch.diff> [...]"""
import os, shutil, subprocess, sys, tempfile
VERIF = os.path.dirname(os.path.dirname(os.path.abspath(__file__)))
sys.path.insert(0, VERIF)
from gverif.index import Repo, AnalysisError
from gverif.cli import run_property, PROPS

worst = 0
for d in sys.argv[1:]:
    tmp = tempfile.mkdtemp(prefix="gverif-benign-")
    try:
        shutil.copytree("/repo/gunicorn", os.path.join(tmp, "gunicorn"), ignore=shutil.ignore_patterns("__pycache__"))
        r = subprocess.run(["patch", "-p1", "-s", "-i", os.path.join(os.path.abspath(d), "patch.diff")], cwd=tmp, capture_output=True, text=True)
        if r.returncode:
            print("%-32s patch does not apply: %s" % (d, (r.stdout + r.stderr).strip()[:100]))
            continue
        try:
            repo = Repo(tmp)
        except AnalysisError as e:
            print("%-32s ANALYSIS-ERROR %s" % (d, e))
            worst = 2
            continue
        alarms = []
        for p in PROPS:
            st, lines, ctx, err = run_property(p, repo, "quick", 0, write=False)
            for v in ctx.violations:
                alarms.append("%s %s :: %s" % (v["rule"], v["site"][:110], v["detail"][:140]))
            if err:
                alarms.append("%s ANALYSIS-ERROR %s" % (p, err[:200]))
        if alarms:
            worst = max(worst, 1)
            print("%-32s %d ALARM(S)" % (d, len(alarms)))
            for a in alarms[:8]:
                print("      " + a)
        else:
            print("%-32s silent" % d)
    finally:
        shutil.rmtree(tmp, ignore_errors=True)
sys.exit(worst)
