#!/usr/bin/env python3
"""prints the markdown table of seeded changes (DESIGN 9.6): first-pass verdict from seeded/*/meta.json, the rules of
the seed's own property that report it on the current tree (recomputed), and what it needs to manifest"""
import json, os, re, sys
VERIF = os.path.dirname(os.path.dirname(os.path.abspath(__file__)))
sys.path.insert(0, VERIF)
from gverif.index import Repo
from gverif.cli import run_property
from gverif import seeded
base = os.path.join(VERIF, "seeded")
root = Repo("/repo", inline=False)
print("| id | property | round | first pass | reported now by | needs to manifest (author's words, shortened) |")
print("|----|----------|-------|------------|-----------------|-----------------------------------------------|")
for sid in sorted(os.listdir(base)):
    d = os.path.join(base, sid)
    m = json.load(open(os.path.join(d, "meta.json")))
    repo = Repo("/repo", overlay=seeded.overlay_of(root, d))
    st, lines, ctx, err = run_property(m["property"], repo, "quick", 0, write=False)
    rules = sorted(set(v["rule"] for v in ctx.violations)) or (["(analysis error)"] if err else ["-"])
    needs = " ".join(m.get("needs_to_manifest", "").split())
    mm = re.search(r"(needs?[^.]*\.|manifest[^.]*\.)", needs, re.I)
    short = (mm.group(0) if mm else needs[:140])[:150]
    print("| %s | %s | %s | %s | %s | %s |" % (sid, m["property"], m.get("round", 1), m.get("first_pass", "caught"), ", ".join(rules), short.replace("|", "/")))
