#!/usr/bin/env python3
"""prints the markdown table of seeded changes (DESIGN 9.6) from seeded/*/meta.json"""
import json, os, sys
base = os.path.join(os.path.dirname(os.path.dirname(os.path.abspath(__file__))), "seeded")
print("| id | property | first pass | now caught by | needs to manifest (author's words, shortened) |")
print("|----|----------|------------|---------------|-----------------------------------------------|")
for sid in sorted(os.listdir(base)):
    m = json.load(open(os.path.join(base, sid, "meta.json")))
    rules = sorted(set(v["rule"] for v in m.get("static_check", {}).get("violations", [])))
    needs = " ".join(m.get("needs_to_manifest", "").split())
    import re
    mm = re.search(r"(needs?[^.]*\.|manifest[^.]*\.)", needs, re.I)
    short = (mm.group(0) if mm else needs[:140])[:170]
    print("| %s | %s | %s | %s | %s |" % (sid, m["property"], m.get("first_pass", "caught"), ", ".join(rules) or "-", short.replace("|", "/")))
