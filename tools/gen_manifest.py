#!/usr/bin/env python3
"""Regenerates /verif/MANIFEST.json from the per-property table below."""
import json
import os

HERE = os.path.dirname(os.path.dirname(os.path.abspath(__file__)))

P = {
 "C01": ("5 C01", "CFG edge-dominance of framing/grammar guards; finite decision tables (transfer-coding loop, version range) by abstract evaluation; regex->charset comparison with RFC 9110 tchar/field tables; lenient-primitive lint (K10)",
         "Decides, for every path through Message.set_body_reader / parse_headers / parse_request_line / ChunkedReader.parse_chunk_size / parse_chunked, that the reject guards the statement lists dominate every body-reader construction, header acceptance and int() conversion; that TOKEN_RE/VERSION_RE/INVALID_AND_DANGEROUS equal the RFC tables and are applied with fullmatch; that no str.strip()/split()/int()/re.match more lenient than the grammar touches wire data; that every relaxation hangs on its documented-unsafe switch with a safe default. NOT decided: equality of body bytes and end offset with a reference reading for all byte strings. Also (aliases of C06.R1-3/C07.R1): buffer discipline of the chunk readers and the drain of the previous body."),
 "C02": ("5 C02", "finite decision tables by abstract evaluation of Response.is_chunked/should_close/default_headers/write and Message.should_close over all field valuations; CFG dominance (send_headers first, keep-alive exit guarded by should_close()); who-may-write on Response.chunked; chunk-size emitter inventory",
         "Decides the framing predicate (S1-S4 of RFC 9112 6.3/9) row by row, the write() truncation/empty-chunk/accounting table, single source of truth for chunkedness, one terminator, head before body, sibling agreement of the three handle_request implementations and the parser's stop-after-close. NOT decided: byte-exact equality of the decoded body; socket.sendfile behaviour. Known finding D8 (HEAD/1xx/204/304 body bytes with keep-alive) is reported as KNOWN-FINDING. Also: an application error is answered with an error page only while no head was sent; start_response(exc_info) resets length/upgrade state; FileWrapper ends at EOF; every writer of response_length/must_close is inventoried."),
 "C03": ("5 C03", "table agreement (SIGNALS vs handle_* under run()'s dispatch pattern); must-pass-through on the idle branch; CFG reachability with exception edges (forked child never returns); who-may-call (fork/waitpid/kill/WORKERS insert); exit-code table agreement; snapshot-iteration rule for the SIGCHLD-mutated dict",
         "Decides the mechanisms that make convergence possible: every signal has a handler, idle iteration = sleep/murder/manage, child branch of fork cannot return, boot-failure codes agree between child and reaper and reach halt(), pop->tmp.close pairing, reap loop left only on 'no child', oldest-first retirement with monotone ages, no live iteration of WORKERS in master context. NOT decided: convergence under all SIGCHLD interleavings. Also: `booted` is set last before run(); reap_workers always reaps; manage_workers retires on every pass."),
 "C04": ("5 C04", "CFG order/dominance on Arbiter.stop/halt; abstract evaluation of the stop signal (graceful<=>TERM); handler-body effect check of Worker.handle_exit; sibling check of worker run loops (alive loop + graceful_timeout-bounded drain); control-dependence of exits on `alive`",
         "Decides: listeners closed before workers are signalled, TERM vs QUIT, bounded wait, final SIGKILL on every path, halt order and exit status, SIGTERM handler only clears `alive`, siginterrupt(SIGTERM, False), every run loop drains within graceful_timeout, no `alive` test abandons a request already read, close_sockets closes all / unlinks iff asked. NOT decided: that a response in flight really arrives; timing. Also: gevent drain table, pool shutdown cancels nothing in flight; reload re-creates the pid file (C17.R3/R4 evaluated here)."),
 "C05": ("5 C05", "exception-ladder analysis (landing handler per exception class, following unconditional re-raises, shadowed-clause detection over the repo+builtin class hierarchy); CFG reachability handler->dispatch; definite assignment modulo the isinstance tuple; template/argument agreement of write_error",
         "Decides: every exception class raised by parsing/dispatch lands in the right clause (error reply vs quiet close), nothing escapes handle(), the client socket is released on every exit, no path from an except clause back to handle_request, only handle_request calls the app with the request parsed in the same iteration, handle_error is total over its tuple, the error page carries Content-Length of its very body, Connection: close, escaped message and literal status/reason. NOT decided: exact reply bytes for every input. Also: stale request objects are not reused across keep-alive iterations; the peer address is normalised before it is logged; handle_error's optional request slot."),
 "C06": ("5 C06", "buffer-discipline analysis (K11): accumulate-then-search (search receiver refreshed after every read on all CFG paths), top-up-loop dominance for k-byte comparisons, delimiter arithmetic over normalised slice offsets, split-pair conservation with co-location and use of the residue; layering who-may-call; Unreader.read decision table",
         "Decides structural necessary conditions of segmentation independence: no stale delimiter search after a read, k-byte terminator comparisons are topped up or re-evaluated, residue = index + len(delimiter), every prefix slice has a co-located complementary suffix that is pushed back/returned, only Unreader touches the socket, pushed-back bytes are served first. NOT decided: equality of observations over all segmentations."),
 "C07": ("5 C07", "CFG dominance (drain loop before next message; clamp before reads), outcome-set check of Request.set_body_reader, accounting dominance in LengthReader.read, typestate of ChunkedReader.parser, who-may-call for Body refills",
         "Decides: the previous body is drained before the next request is parsed, a request never keeps an EOFReader, LengthReader clamps to the remaining length / decrements by exactly what it returns / returns the bounded prefix / does not read at zero, the chunk parser is retired at the end and trailers are consumed after the zero chunk, Body refills only through its reader. NOT decided: io.BytesIO equivalence of read/readline/readlines for all call sequences. Also: buffers whose fill level is read through tell() are created empty."),
 "C08": ("5 C08", "finite decision tables by abstract evaluation (forwarded_allow_ips gate, underscore header policy, PROXY access check) over peer kinds x allow lists x modes; who-may-read of gated settings; CFG guard dominance for scheme stores and PROXY parsing; provenance of REMOTE_ADDR/SCRIPT_NAME; keep-alive carry rule for proxy_protocol_info",
         "Decides tables A.3/A.4 row by row, that secure-scheme/forwarder settings are read only behind the gate, scheme changes only for gated headers (first one wins, conflicts raise), PROXY line only when enabled/first request/allowed peer, REMOTE_ADDR from the accepted peer with the PROXY override last, SCRIPT_NAME only from os.environ or a header literally named SCRIPT_NAME, and that every multi-request handler restores PROXY info from state that outlives a request. NOT decided: value-level environ equality."),
 "C09": ("5 C09", "field-based flow (K8): every non-literal write to a Response field that is formatted into the head must be dominated by a fullmatch validate-or-raise whose class excludes CR/LF/NUL; regex->charset equality with RFC field-content; hop-by-hop decision table; start_response restart table",
         "Decides: status, header names and values are validated before they are stored where send_headers formats them, HEADER_VALUE_RE == HTAB SP VCHAR obs-text, names are tokens, type checks first, Response.headers grows only in process_headers, nothing is sent in start_response, hop-by-hop headers dropped (websocket upgrade reviewed), PEP 3333 restart rules. NOT decided: byte-for-byte head equality. The bytes send_headers hands to the socket are evaluated for a concrete Response (default lines + one `name: value CRLF` per header + CRLF, latin-1); start_response(exc_info) replaces, not appends."),
 "C10": ("5 C10", "CFG guard dominance (listener close/rebind only under old_address != cfg.address), order of reload steps, who-may-touch LISTENERS, shared rules C03.R6 / C04.R2-R3 / C03.R1 evaluated under this property",
         "Decides: listeners survive a reload unless the address changed, app.reload -> setup -> spawn cfg.workers -> manage_workers, a fresh Config per reload, new workers built from the refreshed fields, oldest-first retirement, graceful worker exit, HUP dispatch. NOT decided: that no client is refused at any timing. Also: every listener is shut down exactly under the address-changed guard; setup() stores are unconditional."),
 "C11": ("5 C11", "clock agreement (writer vs scanner call targets), finite decision table of murder_workers (elapsed x timeout x aborted -> signals, aborted'), must-pass-through of notify() per loop iteration, explicit-bound check on blocking calls inside heartbeat loops, super().notify() chain",
         "Decides: one clock for heartbeat and scan (and for keep-alive deadlines), escalation table A.6 incl. timeout 0 and stat errors, every worker loop beats on every iteration with bounded blocking in between, workers get timeout/2, kills go through kill_worker and are followed by manage_workers. NOT decided: timing bounds, false kills by scheduling; notes the literal 1.0 s beat period."),
 "C12": ("5 C12", "finite decision tables by abstract evaluation (request-line limit complete/incomplete, limit clamps, field count, field size) ; must-pass-through (every consumed field is counted); capped-accumulation rule on every accumulate-until-delimiter loop",
         "Decides table A.8 row by row with the documented comparators and 0 = unlimited, that every field consumed by the loop increases the counted quantity, and that each delimiter-waiting loop has a configuration-derived cap that raises. Known finding D10 (chunk-size line and trailer section uncapped) is reported as KNOWN-FINDING. NOT decided: end-to-end boundaries for all values; process memory. Also: every size-checked quantity is the one accumulated; generic unbounded-accumulation rule over the parser layer."),
 "C13": ("5 C13", "lockset rule over _keep / poller registration (fields inferred from the code's own locking, frozen); pairing rule nr_conns +-1 <-> TConn create/close in the same block; full path enumeration of finish_request (exactly one of re-arm / release); CFG dominance (unregister/remove before enqueue; capacity gate); expiry decision table",
         "Decides: every mutation of the protected fields after the pool exists is under self._lock and the lock is not held across select/wait/handlers; increments/decrements are paired with creation/close; finish_request re-arms xor releases on every path; a connection handed to a thread is neither registered nor queued; select only below capacity; keep-alive admission bounded; expiry iff deadline-now <= 0 from the oldest end with the deadline's clock. NOT decided: liveness, leak freedom over all interleavings. Also: the keep-alive deadline is armed where the connection goes idle and nowhere else."),
 "C14": ("5 C14", "CFG guard dominance on reexec; writer/reader table agreement of the environment hand-off (keys, separator, mode); must-pass of set_inheritable(True); who-may-call close_on_exec on listeners; finite decision table of the unlink decision (pids in {0,a,b} x systemd x reuse_port); pid-file choreography guards",
         "Decides: fork only when no upgrade is pending and not an un-promoted new master, hand-off keys written == keys read with the same separator and the right mode, listeners stay inheritable, only workers mark them close-on-exec, unlink iff no other master/systemd/reuse_port (table A.5), UnixSocket removes a path only when binding itself, '.2' suffix iff started by an old master, promotion only when orphaned and forgets the parent, reexec_pid reset when that child is reaped. NOT decided: no refused connection during the upgrade. Also: boot-failure exit codes stop the master only for workers; a new master is always reaped."),
 "C15": ("5 C15", "provenance signatures (normalised expressions of each environ key vs the CGI/PEP 3333 table); header-mapping table by abstract evaluation; codec-discipline lint (every wire<->text conversion names latin-1; no latin-1 text into implicit-UTF-8 APIs); guard dominance before urlsplit; slice arithmetic of the '//' workaround",
         "Decides: REQUEST_METHOD/RAW_URI/QUERY_STRING/SERVER_PROTOCOL/CONTENT_*/HTTP_*/PATH_INFO/SCRIPT_NAME/url_scheme come from exactly the named request fields, repeated fields joined in order, PATH_INFO = latin1(percent-decode(path minus checked prefix)), latin-1 discipline, control characters rejected before urlsplit, workaround removes what it added. NOT decided: comparison with an independent mapping for all targets."),
 "C16": ("5 C16", "declarative table extraction of all Setting subclasses (name/cli/action/type/const/validator/default compatibility); literal check of add_option(dest, default=None); provenance-classified order of cfg.set sites in load_config; handler analysis (no clause on the way from cfg.set to do_load_config returns normally); validators' except clauses must raise",
         "Decides: the settings table is consistent, an unmentioned flag is None, sources are applied framework < file < GUNICORN_CMD_ARGS < CLI with None skipped and one config file chosen CLI > env > default, errors from cfg.set stop start-up with a non-zero exit, validators never swallow a rejection. NOT decided: effective value per value pair (argparse run time); derived Config properties. Also: the config file is evaluated in a fresh module and written after the merge point; Config properties return the configured value (D17)."),
 "C17": ("5 C17", "CFG dominance/order on Pidfile.create (validate first, write before rename, temp file in the same directory), create() outcome table by abstract evaluation, ownership guard before unlink, who-may-touch the pid-file path in the arbiter, start() order (pid file before sockets), errno decision table of validate()",
         "Decides: create validates first (foreign live pid refuses, own pid untouched), the configured path only appears by rename of a fully written temp file in the same directory, unlink only when the file still holds this pid, the arbiter uses only Pidfile methods behind `is not None`, the pid file is claimed before sockets are created, validate == table A.7. NOT decided: crash at every system call; inter-instance races. Also: Pidfile.create records the pid on every return (D18); reload re-creates the file."),
 "C18": ("5 C18", "decision table of Worker.__init__ (max_requests, jitter) and of each handle_request limit test by abstract evaluation; sibling agreement (one increment before the app call, test after increment, force_close when not alive); control-dependence of exits before resp.close() on the limit",
         "Decides: limit = max_requests + randint(0, jitter) iff > 0 else never, each request counted exactly once before the app runs, the request that reaches the limit clears `alive` and is still answered, keep-alive capable workers close the connection, the worker leaves its loop and is replaced (shared rules). NOT decided: client-visible losslessness. Also: a worker that is no longer alive closes the connection (evaluated) and does not accept between listeners (D16)."),
 "C19": ("5 C19", "call-site inventory of log.access (one per handler in the finally of the write try; one in handle_error under req is not None; Statsd delegates once); byte-accounting must-pass (every body send updates Response.sent); sanitiser check of the atoms wrapper (CR and LF neutralised for every str atom) and that the wrapped atoms are what is logged",
         "Decides: exactly one record per request and per rejected request, nothing written after the record, b/B atoms read resp.sent which every body-send path updates, s reads resp.status, every str atom passes a CR/LF neutraliser before access_log.info. NOT decided: truthfulness on half-failed responses; third-party logger classes. Also: the access record is the first statement of the finally clause of the write try."),
 "C20": ("5 C20", "CFG dominance (set_owner_process before load_wsgi/run), super()-chain must-pass for init_process overrides, who-may-call (identity syscalls only in set_owner_process, called only from Worker.init_process, reached only from the forked child of spawn_worker), order group-before-user, path-sensitive definite assignment, chown/unlink/bind/umask order",
         "Decides: privileges are dropped with (cfg.uid, cfg.gid, initgroups) before any application code in every worker class and every generation (single spawn path), setgid/initgroups precede setuid on every path with all locals definitely assigned, no identity change elsewhere (the master keeps its identity), heartbeat file chowned before unlink, unix socket chowned after bind under the configured umask, validate_user/group yield ids. NOT decided: ids of live processes. Also: the primary group is set on every path with a gid, also with initgroups (D14); chown of socket/heartbeat file is unconditional unless both ids already match."),
}


NORMAL = (" All rules run on the tree after semantics-preserving normal forms (expansion of helpers that are not in the frozen inventory of the"
          " reference tree and of fourteen small reference helpers, expansion of local aliases of final attributes, folding of single-use temporaries, folding of"
          " newly introduced named constants, binding of newly added keyword parameters nobody passes, hoisting of module-level state a new helper declares global, splitting of newly introduced generator-based context managers into enter / exit helpers), so extract-method / inline-method / alias / temporary /"
          " named-constant / added-parameter changes do not change the verdict. No repository code is imported or executed.")


# deciding methods added or replaced during the build (DESIGN 9.6 / 9.7): evaluated decision tables take the place of
# several shape-matching rules
EXTRA = {
    "C01": "framing decision (Content-Length x Transfer-Encoding x version), transfer-coding list, request line (every byte value per position x the permit_* switches), "
           "header block (every byte value in name/value, obs-fold, header_map modes; independent oracle) and chunk-size line (~1100 lines) are decision tables evaluated by the analyser's "
           "abstract interpreter from the function entry on enumerated inputs and compared with specification-side oracles",
    "C02": "write table on wire bytes over the response life (write; write; close with the Response methods entered and every socket write traced in order; Content-Length / chunked / neither x head sent or not), sendfile count table, start_response state table and response_length reachability evaluated from the entry; emitted head bytes evaluated for a concrete Response from the state __init__ leaves; force_close() -> start_response life-cycle (once forced, should_close() stays true); an error reply is reachable only while no head is on the wire (evaluated), and is followed by a close",
    "C03": "kill_worker evaluated from the clause an OSError of os.kill lands in, per errno x {pid tracked, pid already reaped} (ESRCH forgets the worker and closes its heartbeat file, a missing key is not an error, other errnos propagate); reap_workers evaluated per exit code 0..255 (halt exactly for the two boot-failure codes) incl. the reexec_pid reset; 'reap until no child' stated over CFG edges; child exit status evaluated per exception class x booted; handle_chld evaluated with a tracked worker / a pending re-exec child: every delivery reaps or is deferred to the running pass (flag protocol on the CFG); manage_workers always compares the pool with the target unless a dirty flag raised by every mutator says nothing changed",
    "C04": "TERM / INT / QUIT handlers evaluated (every outcome raises StopIteration; stop(False) exactly for INT/QUIT); signals sent by stop() evaluated; kill sites found as loops over WORKERS; gevent drain loop found through its deadline local",
    "C05": "accept() error clauses of the sync and threaded worker evaluated per errno (EAGAIN / EWOULDBLOCK / ECONNABORTED swallowed, siblings agree on the rest); handle_error evaluated per exception class (status, reason, message; request object type); write_error reply evaluated byte for byte; dispatched request followed through copies of next(parser)",
    "C06": "short-buffer evaluation: from the head of the governing read loop, no buffer shorter than the compared constant lets control leave the loop without a read; after a read that completed the delimiter early in a long buffer no `raise Limit*` is reached (a cap only judges buffers that still lack the delimiter: D20)",
    "C07": "trailers parsed exactly after a zero-size chunk (evaluated on chunk-size lines); one parser per connection",
    "C08": "header-block trust table (forwarded_allow_ips x peer x secure-scheme headers, duplicates, conflicts) from the evaluated header table; PROXY info carried across the requests of one connection, "
           "evaluated on a three-request history with heap objects (handler loop / one call per request)",
    "C09": "bytes handed to util.write evaluated for a concrete Response; start_response state table",
    "C12": "limits part of the evaluated header-block table (field count, field size incl. continuation lines and CRLF, 0 = unlimited); clamp table with boundary samples; caps evaluated on a buffer that already holds the delimiter (never fire)",
    "C13": "blocking-mode typestate of a connection socket (the hand-over on_client_socket_readable -> enqueue_req -> conn.init() -> submit played on a heap object for fresh / TLS / kept-alive connections with every setblocking traced; non-blocking before the poller); keep-alive reaper table (deadline - now) evaluated; deadline sites found by effect",
    "C10": "reload order incl. 'raw_env exports undone before app.reload() snapshots the environment'; every arbiter field derived from the configuration is (re)assigned in setup()",
    "C14": "reexec evaluated: fork iff reexec_pid == 0 and master_pid == 0; the environment handed to exec for both hand-off modes with concrete pids / listener fds, "
           "and the GUNICORN_FD string fed back into start() (writer/reader round trip)",
    "C19": "SafeAtoms.__init__ evaluated on sample atoms with CR / LF / quotes; write accounting table; late-error guard of the handle_request siblings",
    "C15": "header-to-environ key table, request-line split and split_request_uri evaluated on concrete inputs",
    "C16": "configuration-file location table (cli x env x default -> exactly one load) and 'which pairs of a mapping source reach cfg.set' (None included, unknown names of the file ignored) evaluated from the entry; add_argument kwargs evaluated",
    "C17": "Pidfile life-cycle create(pid) -> unlink() evaluated on one symbolic object (a file holding the master's own pid is always removed); create() outcome table with a symbolic probed pid; the descriptor written to comes from mkstemp only",
    "C11": "every notify() touches the heartbeat file (must-pass); timeout scan tolerates OSError and ValueError of a closed heartbeat file (evaluated); every polling loop of a worker beats",
    "C18": "'worker no longer alive => response forced to close' evaluated from the entry with `alive` snapshots",
    "C20": "set_owner_process evaluated over configured (uid, gid, initgroups) x current (uid, gid): the ordered list of identity system calls; heartbeat-file chown decision evaluated over master uid/gid x configured uid/gid, cold and in every two-spawn history with module-level state carried over (a memo must be keyed by the ids); the environment handed to a re-exec'ed master evaluated; identity system calls not under a swallowing except",
}


# rules added after the audit of the unchanged tree and seeded round 7 (DESIGN 9.6-9.8)
EXTRA2 = {
    "C02": "where an OSError raised by a body write lands in handle(), and handle_error evaluated with the mark send_headers leaves on the request (no error page / second record after the head)",
    "C04": "spawn_worker evaluated for fork() == 0 with the signal-mask / handler calls traced in order (stop signals blocked or the child's own from fork() to init_process()); eventlet's graceful wait evaluated with two rule-supplied acceptors (idle + serving): every acceptor waited for",
    "C05": "chunk-framing / trailer errors raised under wsgi.input close the connection (landing clause of the chunk parser's exceptions); every regex constant of the http layer parsed and searched for catastrophic backtracking (an unbounded repetition of an alternative that is itself an unbounded repetition)",
    "C07": "Message.should_close() depends only on must_close, the version and the Connection options at the time it is asked (no memo)",
    "C10": "the timeout scan judges each worker by its own generation's timeout (also 0 = disabled) after a reload",
    "C06": "the header cap as a property of the stream (Request.parse evaluated from after a read for buffers of cap+1..3 bytes without terminator and terminators found at cap / cap+1); structural: a branch on the parser's buffered input before the threaded worker parks a connection",
    "C08": "ambiguity invariant on every accepted header list (no two spellings of one environ key outside header_map=dangerous); forwarder pipeline Message.__init__ -> parse_headers -> header loop of create() evaluated end to end for 81 cells of header_map x peer x allow list x forwarder_headers",
    "C09": "late OSError routing (shared with C02)",
    "C11": "the first heartbeat stamp on the scanner's clock (in WorkerTmp.__init__, or by every constructor site right after construction); workers judged by their own generation's timeout",
    "C12": "mixed kept / dropped fields against one field limit; the header cap as a property of the stream (see C06)",
    "C13": "graceful wait evaluated with two rule-supplied futures (running + queued): the first futures.wait of every path is given both; the lost-race path (connection already reaped) evaluated; structural: connections still registered with the poller are dispatched or closed before run() returns",
    "C14": "the hand-off as a round trip in both modes: start() evaluated in the very environment reexec() writes (os.environ as a dict, systemd.listen_fds per the sd_listen_fds protocol) must arrive at the descriptors the listeners really have",
    "C15": "'//'-prefixed request-targets with control bytes; repeated-field joins incl. an empty earlier value; SCRIPT_NAME as a prefix of path segments",
    "C16": "Config properties with an environment fall-back evaluated for stored True / False x the environment variable (the stored value wins); structural: a setting read off the parsed command-line namespace by an application hook is matched by a read of the merged configuration in that class's load_config",
    "C17": "structural: an exclusive step (flock / link / O_EXCL) between the check of the existing pid file and the publication of the own one",
    "C19": "where an OSError raised by a body write lands and what handle_error does for a started response (shared with C02)",
    "C20": "identity-table rows where the user has no passwd entry (pwd.getpwuid raises: a rule-supplied raising atom) and rows with real != effective ids",
}


def main():
    checks = []
    for pid in sorted(P):
        ref, tech, text = P[pid]
        if pid in EXTRA:
            tech = tech + "; evaluated tables: " + EXTRA[pid] + "."
        if pid in EXTRA2:
            tech = tech + " Also: " + EXTRA2[pid] + "."
        tech = tech + NORMAL
        checks.append({
            "property_id": pid,
            "quick_cmd": "./bin/gverif check %s --tier quick" % pid,
            "thorough_cmd": "./bin/gverif check %s --tier thorough" % pid,
            "evidence_file": "/verif/evidence/%s.json" % pid,
            "replay_cmd_template": "./bin/gverif explain {path}",
            "engine": "gverif",
            "level_claimed": {
                "category": "other",
                "text": "Static analysis of the mechanisms (clauses) behind the property, on every path / every instance of the current source; it decides the mechanism, not the run-time behaviour. " + text,
                "design_ref": "DESIGN.md section " + ref,
            },
            "level_note": "Trusted base: CPython's ast parser; gverif's CFG exception model (any call/subscript/attribute may raise an Exception; sys.exit raises SystemExit; os._exit/exec do not return); "
                          "the light name/alias resolver (self./super() via in-repo MRO, imports, single-assignment aliases); the specification tables in gverif/spec.py (RFC 9110/9112, PEP 3333, gunicorn docs); "
                          "user hooks cfg.<hook>() and the WSGI application are opaque. Thorough tier additionally proves each rule live against seeded mutants and silent on benign twins of the current tree.",
            "technique": "static analysis: " + tech,
        })
    man = {
        "version": 1,
        "setup_cmd": "./bin/gverif selfcheck",
        "hooks": {
            "guard": "GUNICORN_VERIF",
            "enable": "no hooks: every check is a static analysis of /repo's working tree (nothing is built or instrumented); the guard name is reserved and unused",
            "baseline_off_cmd": "cd /repo && /venv/bin/python -m pytest -ra -q -p no:cacheprovider --timeout=900 --continue-on-collection-errors",
            "source_commits": [],
            "add_only": True,
        },
        "engines": [{
            "name": "gverif",
            "path": "/verif/gverif",
            "serves_properties": sorted(P),
            "kind_free_text": "repository-specific static analyser in pure Python (ast): index + import/MRO resolver, statement CFG with exception edges and finally duplication, "
                              "edge-dominance / must-pass queries, finite abstract evaluator for decision tables, regex->character-set extraction, lockset / pairing / buffer-discipline / flow rules; no gunicorn code is imported or executed",
        }],
        "checks": checks,
        "not_applicable": [],
        "notes": "All 20 properties are claimed at clause level (level 'other'): each check decides necessary structural conditions of the property and lists the behavioural remainder it does NOT decide "
                 "in level_claimed.text and in evidence coverage.explanation. Genuine defects found: D1-D7, D9, D11-D38, D41-D47, D50, D51 repaired by one 'fix:' commit each in /repo (D22-D36 found by an audit of the unchanged tree by independent sub-agents, DESIGN 9.8); D8, D10, D39, D40, D48, D49, D52 and D53 recorded in known_findings.json (the checks print KNOWN-FINDING for exactly those keys). "
                 "Exit codes: 0 held / only known findings, 1 VIOLATION, 2 ANALYSIS-ERROR (fail closed).",
    }
    with open(os.path.join(HERE, "MANIFEST.json"), "w") as f:
        json.dump(man, f, indent=1)
    print("MANIFEST.json written with %d checks" % len(checks))


if __name__ == "__main__":
    main()
