#!/usr/bin/env python3
"""Health check of the corpora against the *current* /repo HEAD (run after patches were re-based onto a new base):
  seeded/<id>  : the patch applies, the package compiles, the 260 tests pass, and -- where the entry has a demo.py -- the demo
                 passes on the clean tree and fails with the patch (the demo is placed where its author had it: _seed/1/demo.py)
  benign/<id>  : the patch applies, compiles, the 260 tests pass; a derived twin's seed demo passes with the patch
Scratch worktrees live under /tmp and are removed.  usage: tools/confirm_corpus.py [-j N] [ids...]"""
import json
import os
import shutil
import subprocess
import sys
from concurrent.futures import ThreadPoolExecutor

VERIF = os.path.dirname(os.path.dirname(os.path.abspath(__file__)))
SUITE = "/venv/bin/python -m pytest -q -p no:cacheprovider --no-cov -x 2>&1 | tail -1"


def sh(cmd, cwd, timeout=600):
    env = dict(os.environ, PYTHONPATH=cwd, PYTHONDONTWRITEBYTECODE="1")
    try:
        r = subprocess.run(cmd, cwd=cwd, shell=True, capture_output=True, text=True, timeout=timeout, env=env)
        return r.returncode, (r.stdout + r.stderr)
    except subprocess.TimeoutExpired:
        return 124, "timeout"


def one(job):
    kind, name, slot = job
    wt = "/tmp/cc_%02d" % slot
    d = os.path.join(VERIF, kind, name)
    sh("git checkout -q -- . && git clean -fdq", wt)
    res = {"id": name, "kind": kind, "problems": []}
    demo_src = None
    if kind == "seeded" and os.path.exists(os.path.join(d, "demo.py")):
        demo_src = os.path.join(d, "demo.py")
    elif kind == "benign" and name.startswith("derived-"):
        p = os.path.join(VERIF, "seeded", name[len("derived-"):], "demo.py")
        demo_src = p if os.path.exists(p) else None
    if demo_src:
        os.makedirs(os.path.join(wt, "_seed", "1"), exist_ok=True)
        shutil.copy(demo_src, os.path.join(wt, "_seed", "1", "demo.py"))
    if kind == "seeded" and demo_src:
        rc, out = sh("/venv/bin/python _seed/1/demo.py", wt, 180)
        if rc != 0:
            res["problems"].append("demo does not pass on the clean tree (exit %s)" % rc)
    rc, out = sh("git apply %s" % os.path.join(d, "patch.diff"), wt)
    if rc:
        res["problems"].append("patch does not apply")
        return res
    rc, out = sh("/venv/bin/python -m compileall -q gunicorn", wt)
    if rc:
        res["problems"].append("does not compile")
    rc, out = sh(SUITE, wt, 900)
    if "260 passed" not in out:
        res["problems"].append("suite: %s" % out.strip()[-80:])
    if demo_src:
        rc, out = sh("/venv/bin/python _seed/1/demo.py", wt, 180)
        if kind == "seeded" and rc == 0:
            res["problems"].append("demo passes with the seeded patch applied")
        if kind == "benign" and rc != 0:
            res["problems"].append("seed demo fails on the twin (exit %s)" % rc)
    return res


def main():
    args = sys.argv[1:]
    jobs_n = 8
    if args[:1] == ["-j"]:
        jobs_n = int(args[1])
        args = args[2:]
    todo = []
    for kind in ("seeded", "benign"):
        for name in sorted(os.listdir(os.path.join(VERIF, kind))):
            if args and name not in args:
                continue
            if os.path.exists(os.path.join(VERIF, kind, name, "patch.diff")):
                todo.append((kind, name))
    for k in range(jobs_n):
        wt = "/tmp/cc_%02d" % k
        subprocess.run("git -C /repo worktree remove --force %s 2>/dev/null; git -C /repo worktree add -q --detach %s HEAD" % (wt, wt), shell=True)
    bad = 0
    try:
        # one slot per thread: entries are dealt round-robin, each slot works through its share sequentially
        def run_slot(slot):
            out = []
            for i, (kind, name) in enumerate(todo):
                if i % jobs_n == slot:
                    out.append(one((kind, name, slot)))
            return out
        with ThreadPoolExecutor(jobs_n) as ex:
            for part in ex.map(run_slot, range(jobs_n)):
                for r in part:
                    if r["problems"]:
                        bad += 1
                        print("%-8s %-28s %s" % (r["kind"], r["id"], "; ".join(r["problems"])), flush=True)
    finally:
        for k in range(jobs_n):
            subprocess.run("git -C /repo worktree remove --force /tmp/cc_%02d" % k, shell=True)
    print("confirm_corpus: %d entries, %d with problems" % (len(todo), bad))
    return 1 if bad else 0


if __name__ == "__main__":
    sys.exit(main())
