#!/usr/bin/env python3
"""Re-base corpus patches that no longer apply after a fix: commit moved code.
For every seeded/ and benign/ entry whose patch.diff does not apply to /repo HEAD, the patch is applied to OLD_BASE (where it
does apply), committed in a scratch worktree and cherry-picked onto HEAD; a clean pick is written back as the new patch.diff
(to be confirmed afterwards with tools/confirm_corpus.py and `gverif seeded|benign`: a textually clean merge can still be
wrong), a conflicting one is listed and left alone (re-based by hand / by a sub-agent).
usage: tools/port_stale.py OLD_BASE [--write]"""
import os
import subprocess
import sys

VERIF = os.path.dirname(os.path.dirname(os.path.abspath(__file__)))
WT = "/tmp/portw"


def sh(cmd, cwd=WT):
    return subprocess.run(cmd, cwd=cwd, shell=True, capture_output=True, text=True)


def main():
    old = sys.argv[1]
    write = "--write" in sys.argv
    head = sh("git rev-parse HEAD", "/repo").stdout.strip()
    sh("git worktree remove --force %s" % WT, "/repo")
    assert sh("git worktree add -q --detach %s %s" % (WT, head), "/repo").returncode == 0
    stale, ported, conflicts, refreshed = [], [], [], []
    sys.path.insert(0, VERIF)
    from gverif import patchutil
    from gverif.index import Repo
    repo_idx = Repo("/repo")
    try:
        for kind in ("seeded", "benign"):
            for name in sorted(os.listdir(os.path.join(VERIF, kind))):
                p = os.path.join(VERIF, kind, name, "patch.diff")
                if not os.path.exists(p):
                    continue
                sh("git checkout -q --detach %s && git reset -q --hard && git clean -fdq" % head)
                if sh("git apply --check %s" % p).returncode == 0:
                    # applies for git (possibly with line offsets); gverif's in-memory patcher wants exact positions
                    try:
                        okov = patchutil.overlay(repo_idx, open(p, encoding="utf-8").read()) is not None
                    except Exception:
                        okov = False
                    if not okov:
                        sh("git apply %s" % p)
                        d = sh("git diff HEAD").stdout
                        refreshed.append((kind, name))
                        if write and d:
                            open(p, "w").write(d)
                    continue
                stale.append((kind, name))
                sh("git checkout -q --detach %s && git reset -q --hard" % old)
                if sh("git apply %s" % p).returncode != 0:
                    conflicts.append((kind, name, "does not apply to %s either" % old))
                    continue
                sh("git add -A && git commit -qm tmp")
                picked = sh("git rev-parse HEAD").stdout.strip()
                sh("git checkout -q --detach %s" % head)
                r = sh("git cherry-pick %s" % picked)
                if r.returncode != 0:
                    sh("git cherry-pick --abort")
                    conflicts.append((kind, name, "conflict"))
                    continue
                d = sh("git diff %s HEAD" % head).stdout
                ported.append((kind, name))
                if write:
                    open(p, "w").write(d)
    finally:
        sh("git worktree remove --force %s" % WT, "/repo")
    print("stale: %d, re-based cleanly: %d, left: %d" % (len(stale), len(ported), len(conflicts)))
    for k, n in refreshed:
        print("  refreshed (line offsets) %s/%s" % (k, n))
    for k, n in ported:
        print("  ported   %s/%s" % (k, n))
    for k, n, why in conflicts:
        print("  LEFT     %s/%s (%s)" % (k, n, why))


if __name__ == "__main__":
    main()
