#!/usr/bin/env python3
"""Run all 20 checks against one stored seeded change (which rules, of any property, see it?)
usage: tools/seed_all.py <seed id> [...]"""
import os, sys
VERIF = os.path.dirname(os.path.dirname(os.path.abspath(__file__)))
sys.path.insert(0, VERIF)
from gverif.index import Repo
from gverif.cli import run_property, PROPS
from gverif import seeded
for sid in sys.argv[1:]:
    d = os.path.join(VERIF, "seeded", sid)
    base = Repo("/repo", inline=False)
    repo = Repo("/repo", overlay=seeded.overlay_of(base, d))
    print(sid)
    for p in PROPS:
        st, lines, ctx, err = run_property(p, repo, "quick", 0, write=False)
        for v in ctx.violations:
            print("   %s %s :: %s" % (v["rule"], v["site"][:100], v["detail"][:160]))
        if err:
            print("   %s ANALYSIS-ERROR %s" % (p, err[:200]))
